//! Native replay of an Engine-M counterexample against the real crate (built with --cfg rarena_verif).
//! Input: a line-based description (see vlib/mirsmt_driver.py: write_replay_input). Real OS threads run the
//! client programs; the hook callback blocks each thread before every atomic access until the forced
//! schedule says it is that thread's turn. Afterwards the violated predicate is re-evaluated natively.
//! Exit code: 1 = violation reproduced, 0 = run completed without it, 3 = the run diverged from the schedule.
use rarena_allocator::{sync::Arena, verif_hook, Allocator, Buffer, Freelist, Options};
use std::sync::atomic::{AtomicBool, AtomicUsize, Ordering};
use std::sync::{Mutex, OnceLock};
use std::time::{Duration, Instant};

#[derive(Clone, Debug)]
enum Act {
  Alloc(u32, bool), // size, handover (not tracked as owned)
  AllocTyped(String),
  AllocAligned(u32, String),
  FreeSlot(usize),
  ForgetSlot(usize),
  CheckSlot(usize),
  FreeGiven(u32, u32, usize),
  TouchGiven(u32, u32),
  CheckLast,
  DropArena,
  CloneDrop,
  Discard,
}

#[derive(Default)]
struct Input {
  cap: u32,
  freelist: String,
  retries: u8,
  minseg: u32,
  init_image: Option<(u32, Vec<u64>)>, // header offset, words from offset 0
  progs: Vec<Vec<Act>>,
  patterns: Vec<u8>,
  schedule: Vec<usize>,
  expect: String,
  spinner: usize,
  dead: Option<usize>,
  crash: bool,
  file: Option<String>,
  trace: Vec<(usize, u64)>, // expected (thread, arena offset) of each forced atomic step, u64::MAX = not an atomic access
}

static SCHED: OnceLock<Vec<usize>> = OnceLock::new();
static POS: AtomicUsize = AtomicUsize::new(0);
static HOLDER: AtomicUsize = AtomicUsize::new(usize::MAX);
static DIVERGED: AtomicBool = AtomicBool::new(false);
static FREE_RUN_STEPS: [AtomicUsize; 8] = [const { AtomicUsize::new(0) }; 8];
static FINISHED: [AtomicBool; 8] = [const { AtomicBool::new(false) }; 8];
static BASE: AtomicUsize = AtomicUsize::new(0);
static CAPV: AtomicUsize = AtomicUsize::new(0);
static LOG: Mutex<Vec<(usize, u64)>> = Mutex::new(Vec::new());
static HANG_LIMIT: usize = 2_000_000;
static HUNG: AtomicBool = AtomicBool::new(false);
static DEAD: AtomicUsize = AtomicUsize::new(usize::MAX);
static PARKED: AtomicBool = AtomicBool::new(false);

thread_local! { static TID: std::cell::Cell<usize> = const { std::cell::Cell::new(usize::MAX) }; }

fn gate(addr: Option<usize>) {
  let tid = TID.with(|t| t.get());
  if tid == usize::MAX {
    return; // main thread (setup of the arena itself)
  }
  let sched = SCHED.get().unwrap();
  if HOLDER.load(Ordering::SeqCst) == tid {
    HOLDER.store(usize::MAX, Ordering::SeqCst);
    POS.fetch_add(1, Ordering::SeqCst);
  }
  let t0 = Instant::now();
  loop {
    let p = POS.load(Ordering::SeqCst);
    if p >= sched.len() && DEAD.load(Ordering::SeqCst) == tid {
      // the crashed process: it has performed its last forced access and never runs again
      PARKED.store(true, Ordering::SeqCst);
      loop {
        std::thread::sleep(Duration::from_millis(50));
      }
    }
    if p >= sched.len() {
      // free run after the forced prefix
      let n = FREE_RUN_STEPS[tid].fetch_add(1, Ordering::SeqCst);
      if n > HANG_LIMIT {
        HUNG.store(true, Ordering::SeqCst);
        // park for ever: the main thread reports
        loop {
          std::thread::sleep(Duration::from_millis(50));
        }
      }
      return;
    }
    if sched[p] == tid {
      HOLDER.store(tid, Ordering::SeqCst);
      let base = BASE.load(Ordering::SeqCst);
      let off = match addr {
        Some(a) if a >= base && a < base + CAPV.load(Ordering::SeqCst) => (a - base) as u64,
        Some(_) => u64::MAX - 1, // outside the arena bytes (the reference counter)
        None => u64::MAX,
      };
      LOG.lock().unwrap().push((tid, off));
      return;
    }
    if t0.elapsed() > Duration::from_secs(10) {
      DIVERGED.store(true, Ordering::SeqCst);
      loop {
        std::thread::sleep(Duration::from_millis(50));
      }
    }
    std::thread::yield_now();
  }
}

fn finish() {
  let tid = TID.with(|t| t.get());
  if HOLDER.load(Ordering::SeqCst) == tid {
    HOLDER.store(usize::MAX, Ordering::SeqCst);
    POS.fetch_add(1, Ordering::SeqCst);
  }
  FINISHED[tid].store(true, Ordering::SeqCst);
}

fn cb(addr: usize, _k: verif_hook::Access) {
  gate(Some(addr));
}

#[derive(Clone, Copy, Debug)]
struct Held {
  tid: usize,
  lo: u32,
  hi: u32,
  plo: u32,
  phi: u32,
}
static LIVE: Mutex<Vec<Held>> = Mutex::new(Vec::new());
static VIOLATIONS: Mutex<Vec<String>> = Mutex::new(Vec::new());

fn own(h: Held, dofs: u32, cap: u32) {
  let mut l = LIVE.lock().unwrap();
  for o in l.iter() {
    if h.lo < h.hi && o.lo < o.hi && h.lo < o.hi && o.lo < h.hi {
      VIOLATIONS.lock().unwrap().push(format!("overlap: thread {} got [{}, {}) while thread {} holds [{}, {})", h.tid, h.lo, h.hi, o.tid, o.lo, o.hi));
    }
  }
  if h.lo < h.hi && (h.lo < dofs || h.hi > cap) {
    VIOLATIONS.lock().unwrap().push(format!("out_of_data_area: thread {} got [{}, {})", h.tid, h.lo, h.hi));
  }
  l.push(h);
}
fn release(tid: usize, lo: u32) {
  let mut l = LIVE.lock().unwrap();
  if let Some(i) = l.iter().position(|o| o.tid == tid && o.lo == lo) {
    l.remove(i);
  }
}

fn run_prog(owned: Arena, tid: usize, prog: &[Act], pat: u8, dofs: u32, cap: u32, given: &[(u32, u32)]) {
  let mut holder = Some(owned);
  // SAFETY of the borrow below: `arena` is only used while `holder` is Some (the DropArena action is the last use)
  let arena: &Arena = unsafe { &*(holder.as_ref().unwrap() as *const Arena) };
  TID.with(|t| t.set(tid));
  gate(None); // the `start` step of the model
  let mut slots: Vec<Option<(u32, u32, u32, u32)>> = vec![None; 8]; // (offset, capacity, buffer_offset, buffer_capacity)
  let ngiven = given.len();
  let mut next = ngiven;
  let base = arena.raw_mut_ptr();
  'prog: for a in prog {
    match a {
      Act::Alloc(n, handover) => match arena.alloc_bytes(*n) {
        Ok(mut h) => {
          if h.capacity() == 0 {
            break 'prog;
          }
          let m = (h.offset() as u32, h.capacity() as u32, h.buffer_offset() as u32, h.buffer_capacity() as u32);
          unsafe { h.detach() };
          std::mem::forget(h);
          let lo = m.0.min(m.2);
          let hi = (m.0 + m.1).max(m.2 + m.3);
          if !*handover {
            own(Held { tid, lo, hi, plo: m.0, phi: m.0 + m.1 }, dofs, cap);
          }
          gate(None); // client::fill
          unsafe { std::ptr::write_bytes(base.add(m.0 as usize), pat, m.1 as usize) };
          slots[next] = Some(m);
          next += 1;
        }
        Err(_) => break 'prog,
      },
      Act::AllocTyped(_) | Act::AllocAligned(_, _) => {
        // (offset, capacity, buffer_offset, buffer_capacity) of a typed / aligned allocation
        let got: Result<(u32, u32, u32, u32), ()> = match a {
          Act::AllocTyped(t) if t == "u64" => unsafe { arena.alloc::<u64>() }.map(|mut h| { let m = (h.offset() as u32, h.capacity() as u32, h.buffer_offset() as u32, h.buffer_capacity() as u32); unsafe { h.detach() }; std::mem::forget(h); m }).map_err(|_| ()),
          Act::AllocTyped(t) if t == "u32" => unsafe { arena.alloc::<u32>() }.map(|mut h| { let m = (h.offset() as u32, h.capacity() as u32, h.buffer_offset() as u32, h.buffer_capacity() as u32); unsafe { h.detach() }; std::mem::forget(h); m }).map_err(|_| ()),
          Act::AllocAligned(n, t) if t == "u64" => arena.alloc_aligned_bytes::<u64>(*n).map(|mut h| { let m = (h.offset() as u32, h.capacity() as u32, h.buffer_offset() as u32, h.buffer_capacity() as u32); unsafe { h.detach() }; std::mem::forget(h); m }).map_err(|_| ()),
          Act::AllocAligned(n, t) if t == "u32" => arena.alloc_aligned_bytes::<u32>(*n).map(|mut h| { let m = (h.offset() as u32, h.capacity() as u32, h.buffer_offset() as u32, h.buffer_capacity() as u32); unsafe { h.detach() }; std::mem::forget(h); m }).map_err(|_| ()),
          _ => panic!("unsupported type in typed/aligned allocation"),
        };
        match got {
          Ok(m) => {
            if m.1 == 0 {
              break 'prog;
            }
            let lo = m.0.min(m.2);
            let hi = (m.0 + m.1).max(m.2 + m.3);
            own(Held { tid, lo, hi, plo: m.0, phi: m.0 + m.1 }, dofs, cap);
            gate(None); // client::fill
            unsafe { std::ptr::write_bytes(base.add(m.0 as usize), pat, m.1 as usize) };
            slots[next] = Some(m);
            next += 1;
          }
          Err(_) => break 'prog,
        }
      }
      Act::FreeSlot(j) => {
        let m = slots[ngiven + *j].expect("slot filled");
        gate(None); // client::check
        for i in 0..m.1 {
          let b = unsafe { *base.add((m.0 + i) as usize) };
          if b != pat {
            VIOLATIONS.lock().unwrap().push(format!("corrupt: thread {} finds byte {} of its live buffer [{}, {}) = {:#x}, wrote {:#x}", tid, m.0 + i, m.0, m.0 + m.1, b, pat));
            break;
          }
        }
        release(tid, m.0.min(m.2));
        unsafe { arena.dealloc(m.2, m.3) };
      }
      Act::ForgetSlot(j) => {
        let m = slots[ngiven + *j].expect("slot filled");
        release(tid, m.0.min(m.2));
      }
      Act::CheckSlot(j) => {
        let m = slots[ngiven + *j].expect("slot filled");
        gate(None);
        for i in 0..m.1 {
          let b = unsafe { *base.add((m.0 + i) as usize) };
          if b != pat {
            VIOLATIONS.lock().unwrap().push(format!("corrupt: thread {} finds byte {} of its live buffer = {:#x}, wrote {:#x}", tid, m.0 + i, b, pat));
            break;
          }
        }
      }
      Act::FreeGiven(o, s, _j) => {
        release(tid, *o);
        unsafe { arena.dealloc(*o, *s) };
      }
      Act::TouchGiven(o, s) => {
        gate(None); // client::fill_range
        unsafe { std::ptr::write_bytes(base.add(*o as usize), pat, *s as usize) };
      }
      Act::CheckLast => {
        if let Some(m) = slots[..next].iter().rev().flatten().next() {
          gate(None);
          for i in 0..m.1 {
            let b = unsafe { *base.add((m.0 + i) as usize) };
            if b != pat {
              VIOLATIONS.lock().unwrap().push(format!("corrupt: thread {} finds byte {} of its live buffer = {:#x}, wrote {:#x}", tid, m.0 + i, b, pat));
              break;
            }
          }
        }
      }
      Act::DropArena => {
        drop(holder.take());
        break 'prog;
      }
      Act::CloneDrop => {
        drop(arena.clone());
      }
      Act::Discard => {
        let _ = arena.discard_freelist();
      }
    }
  }
  std::mem::forget(holder);
  finish();
}

fn parse(path: &str) -> Input {
  let mut inp = Input::default();
  for line in std::fs::read_to_string(path).unwrap().lines() {
    let mut it = line.split_whitespace();
    let Some(key) = it.next() else { continue };
    let rest: Vec<&str> = it.collect();
    match key {
      "cap" => inp.cap = rest[0].parse().unwrap(),
      "freelist" => inp.freelist = rest[0].to_string(),
      "retries" => inp.retries = rest[0].parse().unwrap(),
      "minseg" => inp.minseg = rest[0].parse().unwrap(),
      "image" => {
        let hdr: u32 = rest[0].parse().unwrap();
        inp.init_image = Some((hdr, rest[1..].iter().map(|w| u64::from_str_radix(w, 16).unwrap()).collect()));
      }
      "prog" => {
        let mut acts = vec![];
        for a in &rest[1..] {
          let p: Vec<&str> = a.split(':').collect();
          acts.push(match p[0] {
            "alloc_bytes" => Act::Alloc(p[1].parse().unwrap(), false),
            "alloc_bytes_handover" => Act::Alloc(p[1].parse().unwrap(), true),
            "alloc_typed" => Act::AllocTyped(p[1].to_string()),
            "alloc_aligned" => Act::AllocAligned(p[1].parse().unwrap(), p[2].to_string()),
            "free_slot" => Act::FreeSlot(p[1].parse().unwrap()),
            "forget_slot" => Act::ForgetSlot(p[1].parse().unwrap()),
            "check_slot" => Act::CheckSlot(p[1].parse().unwrap()),
            "free_given" => Act::FreeGiven(p[1].parse().unwrap(), p[2].parse().unwrap(), p[3].parse().unwrap()),
            "touch_given" => Act::TouchGiven(p[1].parse().unwrap(), p[2].parse().unwrap()),
            "check_last" => Act::CheckLast,
            "drop_arena" => Act::DropArena,
            "clone_drop" => Act::CloneDrop,
            "discard" => Act::Discard,
            x => panic!("unknown action {x}"),
          });
        }
        inp.progs.push(acts);
      }
      "patterns" => inp.patterns = rest.iter().map(|x| x.parse().unwrap()).collect(),
      "schedule" => inp.schedule = rest.iter().map(|x| x.parse().unwrap()).collect(),
      "expect" => inp.expect = rest[0].to_string(),
      "spinner" => inp.spinner = rest[0].parse().unwrap(),
      "dead" => inp.dead = Some(rest[0].parse().unwrap()),
      "crash" => inp.crash = true,
      "file" => inp.file = Some(rest[0].to_string()),
      "trace" => {
        inp.trace = rest
          .iter()
          .map(|x| {
            let p: Vec<&str> = x.split(':').collect();
            (p[0].parse().unwrap(), if p[1] == "-" { u64::MAX } else { p[1].parse().unwrap() })
          })
          .collect()
      }
      _ => {}
    }
  }
  inp
}

fn opts(inp: &Input) -> Options {
  let fl = match inp.freelist.as_str() {
    "Optimistic" => Freelist::Optimistic,
    "Pessimistic" => Freelist::Pessimistic,
    _ => Freelist::None,
  };
  Options::new()
    .with_capacity(inp.cap)
    .with_unify(true)
    .with_freelist(fl)
    .with_maximum_retries(inp.retries)
    .with_minimum_segment_size(inp.minseg)
}

/// Native counterpart of the effects-mode obligations (C09): concrete files for E1 (foreign file with a small bogus cursor),
/// E2 (valid arena file cut below the header, opened with a capacity) and E3 (read-only open). Prints one line per
/// obligation; exit 1 if any of them is violated natively.
fn open_check(dir: &str) -> i32 {
  use std::io::Write;
  let mut bad = 0;
  // E1
  let p = format!("{dir}/e1_foreign.bin");
  let mut bytes = vec![0x41u8; 4096];
  bytes[16..20].copy_from_slice(&100u32.to_le_bytes());
  std::fs::File::create(&p).unwrap().write_all(&bytes).unwrap();
  let r = unsafe { Options::new().with_read(true).with_write(true).map_mut::<Arena, _>(&p) };
  let after = std::fs::read(&p).unwrap();
  let diff = bytes.iter().zip(after.iter()).position(|(a, b)| a != b);
  if r.is_ok() || diff.is_some() || after.len() != bytes.len() {
    println!("NATIVE E1 violated: foreign file accepted={} first altered byte={:?}", r.is_ok(), diff);
    bad += 1;
  } else {
    println!("NATIVE E1 holds");
  }
  drop(r);
  // E2
  let mut bad2 = 0;
  for cut in [0u64, 7, 12, 17, 24, 31] {
    let p = format!("{dir}/e2_short_{cut}.arena");
    let _ = std::fs::remove_file(&p);
    {
      let a = unsafe { Options::new().with_capacity(4096).with_create_new(true).with_read(true).with_write(true).map_mut::<Arena, _>(&p).unwrap() };
      let _ = a.alloc_bytes(40).map(|mut b| unsafe { b.detach() });
    }
    let f = std::fs::OpenOptions::new().write(true).open(&p).unwrap();
    f.set_len(cut).unwrap();
    drop(f);
    let before = std::fs::read(&p).unwrap();
    for with_cap in [true, false] {
      let o = Options::new().with_read(true).with_write(true);
      let o = if with_cap { o.with_capacity(4096) } else { o };
      let r = unsafe { o.map_mut::<Arena, _>(&p) };
      let ok = r.is_ok();
      drop(r);
      let after = std::fs::read(&p).unwrap();
      let kept = after.len() >= before.len() && after[..before.len()] == before[..];
      if ok || !kept {
        println!("NATIVE E2 violated: file cut to {cut} bytes (capacity given: {with_cap}): accepted={ok} bytes kept={kept}");
        bad2 += 1;
      }
    }
  }
  if bad2 == 0 {
    println!("NATIVE E2 holds");
  }
  bad += bad2;
  // E3
  let p = format!("{dir}/e3_ro.arena");
  {
    let a = unsafe { Options::new().with_capacity(4096).with_create_new(true).with_read(true).with_write(true).map_mut::<Arena, _>(&p).unwrap() };
    let _ = a.alloc_bytes(100).map(|mut b| unsafe { b.detach() });
  }
  let before = std::fs::read(&p).unwrap();
  {
    let a = unsafe { Options::new().with_read(true).map::<Arena, _>(&p).unwrap() };
    let _ = a.alloc_bytes(8).is_err();
    let _ = a.discard_freelist();
    a.set_minimum_segment_size(77);
    a.increase_discarded(5);
  }
  if std::fs::read(&p).unwrap() != before {
    println!("NATIVE E3 violated: read-only open changed the file");
    bad += 1;
  } else {
    println!("NATIVE E3 holds");
  }
  if bad > 0 { 1 } else { 0 }
}

// ------------------------------------------------------------------------------------------------ reopen check (C05)
#[derive(PartialEq, Debug, Clone)]
struct Obs {
  allocated: usize,
  discarded: u32,
  data_offset: usize,
  min_seg: u32,
  magic: u16,
  cap: usize,
}
fn obs<A: Allocator>(a: &A) -> Obs {
  Obs { allocated: a.allocated(), discarded: a.discarded(), data_offset: a.data_offset(), min_seg: a.minimum_segment_size(), magic: a.magic_version(), cap: a.capacity() }
}

/// One close/reopen experiment against the real crate: history (3 allocations, one released, one too small to
/// become a segment) -> drop without flush -> reopen in every mode. Prints `NATIVE R<k> violated: ...` lines.
fn reopen_one<A: Allocator>(dir: &str, tag: &str, fl: Freelist, reserved: u32, bad: &mut [u32; 6]) {
  let p = format!("{dir}/reopen_{tag}_{reserved}.arena");
  let _ = std::fs::remove_file(&p);
  let cap = 4096u32;
  let mk = || Options::new().with_capacity(cap).with_reserved(reserved).with_freelist(fl).with_magic_version(7).with_read(true).with_write(true);
  let (before, live, resv): (Obs, Vec<(usize, Vec<u8>)>, Vec<u8>);
  {
    let a: A = unsafe { mk().with_create_new(true).map_mut::<A, _>(&p).expect("create") };
    a.set_minimum_segment_size(24);
    unsafe { a.reserved_slice_mut().iter_mut().enumerate().for_each(|(i, b)| *b = 0xA0 + i as u8) };
    let mut hs = Vec::new();
    for (i, n) in [40u32, 24, 100, 56].iter().enumerate() {
      let mut b = a.alloc_bytes(*n).expect("alloc");
      b.put_slice(&vec![0x11 * (i as u8 + 1); *n as usize]).unwrap();
      hs.push(b);
    }
    // release the second (becomes a segment unless the list is None) ; keep the others live (detached)
    let mut it = hs.into_iter();
    let mut h0 = it.next().unwrap();
    let h1 = it.next().unwrap();
    let mut h2 = it.next().unwrap();
    let mut h3 = it.next().unwrap();
    drop(h1);
    a.increase_discarded(3);
    {
      // leave non-zero bytes above the cursor: a filled allocation released from the top
      let mut t = a.alloc_bytes(64).expect("alloc");
      t.put_slice(&[0xCC; 64]).unwrap();
    }
    let mut lv = Vec::new();
    for h in [&mut h0, &mut h2, &mut h3] {
      unsafe { h.detach() };
      lv.push((h.offset(), h[..].to_vec()));
    }
    before = obs(&a);
    live = lv;
    resv = a.reserved_slice().to_vec();
  }
  let flen = std::fs::metadata(&p).map(|m| m.len()).unwrap_or(0);
  if flen != cap as u64 {
    println!("NATIVE R5 violated: [{tag}] file length after drop is {flen}, was {cap}");
    bad[5] += 1;
  }
  let image = std::fs::read(&p).unwrap();
  let check_common = |a: &A, mode: &str, rid: usize, bad: &mut [u32; 6]| {
    let now = obs(a);
    let mut b4 = before.clone();
    b4.cap = now.cap; // capacity may legitimately differ (larger / absent capacity option)
    if now != b4 {
      println!("NATIVE R{rid} violated: [{tag} {mode}] observables after reopen {now:?} != before close {b4:?}");
      bad[rid] += 1;
    }
    let mem = a.memory();
    for (o, bytes) in &live {
      if mem.len() < o + bytes.len() || &mem[*o..o + bytes.len()] != &bytes[..] {
        println!("NATIVE R1 violated: [{tag} {mode}] bytes of the live range at {o} changed across the reopen");
        bad[1] += 1;
      }
    }
    if a.reserved_slice() != &resv[..] {
      println!("NATIVE R1 violated: [{tag} {mode}] reserved prefix changed across the reopen");
      bad[1] += 1;
    }
  };
  // read-only modes first (they must not change the file)
  for (mode, capo, leftover) in [("map", None, false), ("map_copy_read_only", None, false), ("map", Some(2 * cap), false), ("map_copy_read_only", Some(cap / 2), false), ("map", Some(cap), false),
                                 ("map", None, true), ("map_copy_read_only", Some(cap), true)] {
    let r = unsafe {
      let o = Options::new().with_reserved(reserved).with_magic_version(7).with_read(true);
      // flags left over from a writable session must not matter for a read-only open
      let o = if leftover { o.with_write(true).with_truncate(true).with_create(true) } else { o };
      let o = if let Some(c) = capo { o.with_capacity(c) } else { o };
      if mode == "map" { o.map::<A, _>(&p) } else { o.map_copy_read_only::<A, _>(&p) }
    };
    let mode = &format!("{mode} capacity={capo:?} leftover-write-flags={leftover}")[..];
    match r {
      Ok(a) => {
        if capo.map_or(true, |c| c as usize >= before.allocated) {
          check_common(&a, mode, 4, bad);
        }
        if a.capacity() as u64 > flen || a.memory().len() as u64 > flen {
          println!("NATIVE R4 violated: [{tag} {mode}] the read-only arena reports capacity {} / memory() of {} bytes for a file of {flen} bytes", a.capacity(), a.memory().len());
          bad[4] += 1;
        }
        if !a.read_only() || a.alloc_bytes(8).is_ok() {
          println!("NATIVE R4 violated: [{tag} {mode}] read-only reopen accepts an allocation");
          bad[4] += 1;
        }
      }
      Err(e) => {
        println!("NATIVE R4 violated: [{tag} {mode}] reopen failed: {e}");
        bad[4] += 1;
      }
    }
    if std::fs::read(&p).unwrap() != image {
      println!("NATIVE R4 violated: [{tag} {mode}] the file changed");
      bad[4] += 1;
    }
  }
  // copy-on-write and writable, with the same / a larger / no capacity
  for (mode, capo, create) in [("map_copy", Some(cap), false), ("map_mut", Some(cap), false), ("map_mut", None, false), ("map_mut", Some(2 * cap), false),
                               ("map_mut", Some(cap), true), ("map_mut", Some(2 * cap), true), ("map_copy", Some(2 * cap), true), ("map_mut", None, true)] {
    let o = Options::new().with_reserved(reserved).with_freelist(fl).with_magic_version(7).with_read(true).with_write(true).with_create(create);
    let o = if let Some(c) = capo { o.with_capacity(c) } else { o };
    let r = unsafe { if mode == "map_copy" { o.map_copy::<A, _>(&p) } else { o.map_mut::<A, _>(&p) } };
    let label = format!("{mode} capacity={capo:?} create={create}");
    match r {
      Ok(a) => {
        check_common(&a, &label, 3, bad);
        let mem = a.memory();
        if mem[before.allocated..].iter().any(|b| *b != 0) {
          println!("NATIVE R1 violated: [{tag} {label}] bytes at or above the stored cursor are not zero after the reopen");
          bad[1] += 1;
        }
        if let Ok(b) = a.alloc_bytes(64) {
          if b.offset() >= before.allocated && a.memory()[b.offset()..b.offset() + 64].iter().any(|x| *x != 0) {
            println!("NATIVE R1 violated: [{tag} {label}] alloc_bytes after the reopen returns non-zero memory (C08)");
            bad[1] += 1;
          }
        }
        if mode == "map_mut" {
          // new allocations never overlap the ranges that were live before closing
          let mut n = 0;
          while let Ok(mut b) = a.alloc_bytes(16) {
            unsafe { b.detach() };
            let (o, c) = (b.offset(), b.capacity());
            for (lo, bytes) in &live {
              if o < lo + bytes.len() && *lo < o + c {
                println!("NATIVE R1 violated: [{tag} {label}] allocation [{o},{}) after the reopen overlaps the live range at {lo}", o + c);
                bad[1] += 1;
              }
            }
            n += 1;
            if n > 1024 { break; }
          }
          // give the space back so that the next reopen sees the same cursor: rewind is not used; instead restore the image
        }
      }
      Err(e) => {
        println!("NATIVE R3 violated: [{tag} {label}] reopen failed: {e}");
        bad[3] += 1;
      }
    }
    let l2 = std::fs::metadata(&p).map(|m| m.len()).unwrap_or(0);
    if l2 < cap as u64 {
      println!("NATIVE R2 violated: [{tag} {label}] the file shrank to {l2}");
      bad[2] += 1;
    }
    // restore the closed image for the next mode (writable reopens allocate)
    std::fs::write(&p, &image).unwrap();
  }
  let _ = std::fs::remove_file(&p);
}

/// a writable session opened through the path-builder entry point must persist like one opened through map_mut
fn builder_session<A: Allocator>(dir: &str, tag: &str, bad: &mut [u32; 6]) {
  let p = format!("{dir}/reopen_builder_{tag}.arena");
  let _ = std::fs::remove_file(&p);
  {
    let a: A = unsafe { Options::new().with_capacity(4096).with_create_new(true).with_read(true).with_write(true).map_mut::<A, _>(&p).expect("create") };
    let _ = a.alloc_bytes(40).map(|mut b| unsafe { b.detach() });
  }
  let want;
  {
    let pb = std::path::PathBuf::from(&p);
    let r = unsafe { Options::new().with_capacity(4096).with_read(true).with_write(true).map_mut_with_path_builder::<A, _, std::io::Error>(|| Ok(pb)) };
    match r {
      Ok(a) => {
        let mut b = a.alloc_bytes(56).expect("alloc");
        b.put_slice(&[0x7E; 56]).unwrap();
        unsafe { b.detach() };
        want = a.allocated();
      }
      Err(_) => {
        println!("NATIVE R3 violated: [{tag}] map_mut_with_path_builder refuses a valid file");
        bad[3] += 1;
        let _ = std::fs::remove_file(&p);
        return;
      }
    }
  }
  match unsafe { Options::new().with_read(true).map::<A, _>(&p) } {
    Ok(a) => {
      if a.allocated() != want {
        println!("NATIVE R3 violated: [{tag}] a session opened with map_mut_with_path_builder did not reach the file: allocated() {} after reopen, {want} before closing", a.allocated());
        bad[3] += 1;
      }
    }
    Err(e) => {
      println!("NATIVE R3 violated: [{tag}] reopen after a path-builder session failed: {e}");
      bad[3] += 1;
    }
  }
  let _ = std::fs::remove_file(&p);
}

fn reopen_check(dir: &str) -> i32 {
  let mut bad = [0u32; 6];
  builder_session::<Arena>(dir, "sync", &mut bad);
  builder_session::<rarena_allocator::unsync::Arena>(dir, "unsync", &mut bad);
  for (name, fl) in [("opt", Freelist::Optimistic), ("pess", Freelist::Pessimistic), ("none", Freelist::None)] {
    for reserved in [0u32, 5] {
      reopen_one::<Arena>(dir, &format!("sync_{name}"), fl, reserved, &mut bad);
      reopen_one::<rarena_allocator::unsync::Arena>(dir, &format!("unsync_{name}"), fl, reserved, &mut bad);
    }
  }
  // read-only open of a file that is too small to contain the header prefix: refused, bytes untouched
  {
    let p = format!("{dir}/reopen_short_ro.arena");
    for cut in [0u64, 7, 12, 17, 24, 31] {
      let _ = std::fs::remove_file(&p);
      {
        let a = unsafe { Options::new().with_capacity(4096).with_create_new(true).with_read(true).with_write(true).map_mut::<Arena, _>(&p).unwrap() };
        let _ = a.alloc_bytes(40).map(|mut b| unsafe { b.detach() });
      }
      let f = std::fs::OpenOptions::new().write(true).open(&p).unwrap();
      f.set_len(cut).unwrap();
      drop(f);
      let before = std::fs::read(&p).unwrap();
      for mode in ["map", "map_copy_read_only"] {
        let o = Options::new().with_read(true);
        let ok = unsafe { if mode == "map" { o.map::<Arena, _>(&p).is_ok() } else { o.map_copy_read_only::<Arena, _>(&p).is_ok() } };
        if ok || std::fs::read(&p).unwrap() != before {
          println!("NATIVE R4 violated: [{mode}] a file cut to {cut} bytes is accepted by the read-only open (or was altered)");
          bad[4] += 1;
        }
      }
    }
    let _ = std::fs::remove_file(&p);
  }
  for k in 1..6 {
    if bad[k] == 0 {
      println!("NATIVE R{k} holds");
    }
  }
  if bad.iter().any(|b| *b > 0) { 1 } else { 0 }
}

// ------------------------------------------------------------------------------------------------ truncate check (C18, file / anonymous backends)
fn truncate_one(dir: &str, backend: &str, fl: Freelist, bad: &mut u32) {
  use rarena_allocator::unsync::Arena as U;
  let p = format!("{dir}/truncate_{backend}.arena");
  let _ = std::fs::remove_file(&p);
  let cap = 4096u32;
  for target in [8192usize, 2048, 100, 0, 4096, 300] {
    let _ = std::fs::remove_file(&p);
    let o = Options::new().with_capacity(cap).with_freelist(fl).with_reserved(3);
    let mut a: U = match backend {
      "file" => unsafe { o.with_create_new(true).with_read(true).with_write(true).map_mut::<U, _>(&p).expect("create") },
      _ => o.map_anon::<U>().expect("anon"),
    };
    let mut live = Vec::new();
    {
      let mut hs = Vec::new();
      for (i, n) in [40u32, 24, 100].iter().enumerate() {
        let mut b = a.alloc_bytes(*n).expect("alloc");
        b.put_slice(&vec![0x21 * (i as u8 + 1); *n as usize]).unwrap();
        hs.push(b);
      }
      let mut it = hs.into_iter();
      let mut h0 = it.next().unwrap();
      let h1 = it.next().unwrap();
      let mut h2 = it.next().unwrap();
      drop(h1);
      for h in [&mut h0, &mut h2] {
        unsafe { h.detach() };
        live.push((h.offset(), h[..].to_vec()));
      }
    }
    let (al, di, dofs, ms) = (a.allocated(), a.discarded(), a.data_offset(), a.minimum_segment_size());
    let r = a.truncate(target);
    let want = target.max(al);
    let label = format!("[{backend} truncate({target}) allocated={al}]");
    if r.is_err() {
      println!("NATIVE T1 violated: {label} failed: {:?}", r.err());
      *bad += 1;
      continue;
    }
    if a.capacity() != want {
      println!("NATIVE T1 violated: {label} capacity() = {} instead of {want}", a.capacity());
      *bad += 1;
    }
    if (a.allocated(), a.discarded(), a.data_offset(), a.minimum_segment_size()) != (al, di, dofs, ms) {
      println!("NATIVE T1 violated: {label} allocated/discarded/data_offset/minimum segment size changed");
      *bad += 1;
    }
    let mem = a.memory();
    if mem.len() != want {
      println!("NATIVE T1 violated: {label} memory() has {} bytes", mem.len());
      *bad += 1;
    }
    for (o, bytes) in &live {
      if mem.len() < o + bytes.len() || &mem[*o..o + bytes.len()] != &bytes[..] {
        println!("NATIVE T1 violated: {label} bytes of the live range at {o} changed");
        *bad += 1;
      }
    }
    // allocations succeed exactly when they fit the new capacity (fresh space; the freed 24-byte range may serve small ones)
    let room = want - al;
    if room >= 64 {
      match a.alloc_bytes(room as u32) {
        Ok(mut b) => unsafe { b.detach() },
        Err(e) => {
          println!("NATIVE T1 violated: {label} a request of the whole new tail ({room}) is refused: {e}");
          *bad += 1;
        }
      }
    }
    if a.alloc_bytes(64).is_ok() && room < 64 {
      println!("NATIVE T1 violated: {label} a request beyond the new capacity is granted");
      *bad += 1;
    }
  }
  if backend == "file" {
    // read-only: fails without effect
    let r = unsafe { Options::new().with_reserved(3).with_read(true).map::<U, _>(&p) };
    if let Ok(mut a) = r {
      let before = (a.capacity(), a.allocated());
      if a.truncate(100_000).is_ok() || (a.capacity(), a.allocated()) != before {
        println!("NATIVE T3 violated: truncate on a read-only arena succeeded or changed it");
        *bad += 1;
      }
    }
  }
  let _ = std::fs::remove_file(&p);
}

fn truncate_check(dir: &str) -> i32 {
  let mut bad = 0u32;
  for fl in [Freelist::Optimistic, Freelist::None] {
    truncate_one(dir, "file", fl, &mut bad);
    truncate_one(dir, "anon", fl, &mut bad);
  }
  if bad == 0 {
    println!("NATIVE T1 holds");
    println!("NATIVE T3 holds");
    0
  } else {
    1
  }
}

// ------------------------------------------------------------------------------------------------ construction check (C16, file / anonymous backends)
fn create_one<A: Allocator>(dir: &str, tag: &str, file: bool, unify: bool, reserved: u32, bad: &mut u32) {
  let p = format!("{dir}/create_{tag}_{reserved}_{unify}.arena");
  let _ = std::fs::remove_file(&p);
  let o = Options::new().with_capacity(4096).with_reserved(reserved).with_unify(unify).with_magic_version(9);
  let want = if file || unify { o.data_offset_unify::<A>() } else { o.data_offset::<A>() };
  let a: A = if file {
    unsafe { o.with_create_new(true).with_read(true).with_write(true).map_mut::<A, _>(&p).expect("create") }
  } else {
    o.map_anon::<A>().expect("anon")
  };
  let label = format!("[{tag} file={file} unify={unify} reserved={reserved}]");
  if a.data_offset() != want || a.allocated() != want {
    println!("NATIVE L1 violated: {label} data_offset() = {}, allocated() = {}, Options says {want}", a.data_offset(), a.allocated());
    *bad += 1;
  }
  if a.reserved_slice().len() != reserved as usize || a.reserved_slice().iter().any(|b| *b != 0) {
    println!("NATIVE L1 violated: {label} reserved_slice() has {} bytes or is not zero", a.reserved_slice().len());
    *bad += 1;
  }
  if a.capacity() != 4096 || a.memory()[want..].iter().any(|b| *b != 0) {
    println!("NATIVE L1 violated: {label} capacity {} / data area not zero", a.capacity());
    *bad += 1;
  }
  if a.magic_version() != 9 || a.read_only() || (file && !a.unify()) || (!file && a.unify() != unify) {
    println!("NATIVE L1 violated: {label} magic_version / read_only / unify flags");
    *bad += 1;
  }
  match a.alloc_bytes(8) {
    Ok(mut b) => {
      unsafe { b.detach() };
      if b.offset() != want {
        println!("NATIVE L1 violated: {label} first allocation at {} instead of {want}", b.offset());
        *bad += 1;
      }
    }
    Err(e) => {
      println!("NATIVE L1 violated: {label} first allocation refused: {e}");
      *bad += 1;
    }
  }
  drop(a);
  let _ = std::fs::remove_file(&p);
}

fn image_after_history<A: Allocator>(a: &A, reserved: u32) -> Vec<u8> {
  {
    let mut h0 = a.alloc_bytes(40).expect("alloc");
    h0.put_slice(&[0x5A; 40]).unwrap();
    let h1 = a.alloc_bytes(24).expect("alloc");
    let mut h2 = a.alloc_bytes(9).expect("alloc");
    h2.put_slice(&[0x6B; 9]).unwrap();
    unsafe {
      h0.detach();
      h2.detach();
    }
    drop(h1);
  }
  let mut img = a.memory().to_vec();
  // the last 4 bytes of the 24-byte header are padding that Header::new never initialises
  let hoff = ((reserved as usize + 7) & !7) + 8;
  for b in &mut img[hoff + 20..hoff + 24] {
    *b = 0;
  }
  img
}

fn images_one<A: Allocator>(dir: &str, tag: &str, reserved: u32, bad: &mut u32) {
  let p = format!("{dir}/image_{tag}_{reserved}.arena");
  let _ = std::fs::remove_file(&p);
  let o = Options::new().with_capacity(1024).with_reserved(reserved).with_unify(true).with_magic_version(9);
  let v: A = o.alloc::<A>().expect("vec");
  let m: A = o.map_anon::<A>().expect("anon");
  let f: A = unsafe { o.with_create_new(true).with_read(true).with_write(true).map_mut::<A, _>(&p).expect("file") };
  let (iv, im, ifl) = (image_after_history(&v, reserved), image_after_history(&m, reserved), image_after_history(&f, reserved));
  for (name, img) in [("anonymous-map", &im), ("file", &ifl)] {
    if let Some(pos) = iv.iter().zip(img.iter()).position(|(a, b)| a != b) {
      println!("NATIVE L1 violated: [{tag} reserved={reserved}] unified {name} image differs from the Vec image at byte {pos} after the same history");
      *bad += 1;
    }
  }
  drop(f);
  let _ = std::fs::remove_file(&p);
}

/// "Construction fails exactly when the capacity cannot hold the prefix"
fn small_capacity_one<A: Allocator>(dir: &str, tag: &str, reserved: u32, bad: &mut u32) {
  for (file, unify) in [(true, true), (false, true), (false, false)] {
    let base = Options::new().with_reserved(reserved).with_unify(unify);
    let prefix = if file || unify { base.data_offset_unify::<A>() } else { base.data_offset::<A>() } as u32;
    for cap in [prefix.saturating_sub(9), prefix - 1, prefix, prefix + 1] {
      if cap == 0 { continue; }
      let p = format!("{dir}/small_{tag}_{reserved}_{cap}.arena");
      let _ = std::fs::remove_file(&p);
      let o = base.with_capacity(cap);
      let r: std::io::Result<A> = if file { unsafe { o.with_create_new(true).with_read(true).with_write(true).map_mut::<A, _>(&p) } } else { o.map_anon::<A>() };
      let want_ok = cap >= prefix;
      match &r {
        Ok(a) if !want_ok => {
          println!("NATIVE L1 violated: [{tag} file={file} unify={unify} reserved={reserved}] capacity {cap} < prefix {prefix} accepted (data_offset {} capacity {})", a.data_offset(), a.capacity());
          *bad += 1;
        }
        Err(e) if want_ok => {
          println!("NATIVE L1 violated: [{tag} file={file} unify={unify} reserved={reserved}] capacity {cap} >= prefix {prefix} refused: {e}");
          *bad += 1;
        }
        _ => {}
      }
      drop(r);
      let _ = std::fs::remove_file(&p);
    }
  }
}

fn create_check(dir: &str) -> i32 {
  let mut bad = 0u32;
  for reserved in [0u32, 1, 7, 8, 100] {
    small_capacity_one::<Arena>(dir, "sync", reserved, &mut bad);
    small_capacity_one::<rarena_allocator::unsync::Arena>(dir, "unsync", reserved, &mut bad);
  }
  for reserved in [0u32, 1, 5, 8, 13, 64] {
    images_one::<Arena>(dir, "sync", reserved, &mut bad);
    images_one::<rarena_allocator::unsync::Arena>(dir, "unsync", reserved, &mut bad);
  }
  for reserved in [0u32, 5, 13, 64] {
    for unify in [false, true] {
      create_one::<Arena>(dir, "sync", true, unify, reserved, &mut bad);
      create_one::<rarena_allocator::unsync::Arena>(dir, "unsync", true, unify, reserved, &mut bad);
      create_one::<Arena>(dir, "sync", false, unify, reserved, &mut bad);
      create_one::<rarena_allocator::unsync::Arena>(dir, "unsync", false, unify, reserved, &mut bad);
    }
  }
  if bad == 0 {
    println!("NATIVE L1 holds");
    0
  } else {
    1
  }
}

fn main() {
  let args: Vec<String> = std::env::args().collect();
  if args[1] == "--create-check" {
    std::process::exit(create_check(&args[2]));
  }
  if args[1] == "--truncate-check" {
    std::process::exit(truncate_check(&args[2]));
  }
  if args[1] == "--reopen-check" {
    std::process::exit(reopen_check(&args[2]));
  }
  if args[1] == "--open-check" {
    std::process::exit(open_check(&args[2]));
  }
  let inp = parse(&args[1]);
  let arena: Arena = if let Some(f) = &inp.file {
    let _ = std::fs::remove_file(f);
    unsafe { opts(&inp).with_create_new(true).with_read(true).with_write(true).map_mut::<Arena, _>(f).expect("create file arena") }
  } else {
    opts(&inp).alloc::<Arena>().expect("arena")
  };
  let dofs = arena.data_offset() as u32;
  if let Some((hdr, words)) = &inp.init_image {
    // an initial state satisfying INV, written exactly like the Kani harnesses do (header + data area)
    let p = arena.raw_mut_ptr();
    for (i, w) in words.iter().enumerate() {
      let off = 8 * i as u32;
      if off >= *hdr {
        unsafe { (p.add(off as usize) as *mut u64).write(*w) };
      }
    }
  }
  BASE.store(arena.raw_ptr() as usize, Ordering::SeqCst);
  CAPV.store(inp.cap as usize, Ordering::SeqCst);
  SCHED.set(inp.schedule.clone()).unwrap();
  if inp.crash {
    DEAD.store(inp.dead.unwrap_or(usize::MAX), Ordering::SeqCst);
  }
  verif_hook::set_callback(Some(cb));
  let n = inp.progs.len();
  let mut handles = vec![];
  // with a crash: the survivor (last thread) only starts once the victim has been cut off, on a re-opened arena
  let survivor = if inp.crash { Some(n - 1) } else { None };
  for tid in 0..n {
    if Some(tid) == survivor {
      continue;
    }
    let holds = inp.progs[tid].iter().any(|x| matches!(x, Act::DropArena));
    let any_holder = inp.progs.iter().any(|p| p.iter().any(|x| matches!(x, Act::DropArena)));
    // in a teardown scenario a thread that never drops works through a non-owning alias (forgotten at its end)
    let a = if any_holder && !holds { unsafe { std::ptr::read(&arena as *const Arena) } } else { arena.clone() };
    let prog = inp.progs[tid].clone();
    let pat = inp.patterns[tid];
    let cap = inp.cap;
    let given: Vec<(u32, u32)> = prog.iter().filter_map(|x| if let Act::FreeGiven(o, s, _) = x { Some((*o, *s)) } else { None }).collect();
    for (o, s) in &given {
      own(Held { tid, lo: *o, hi: *o + *s, plo: *o, phi: *o + *s }, dofs, cap);
    }
    handles.push((tid, std::thread::spawn(move || run_prog(a, tid, &prog, pat, dofs, cap, &given))));
  }
  let teardown = inp.progs.iter().any(|p| p.iter().any(|a| matches!(a, Act::DropArena)));
  let base_ptr = arena.raw_ptr();
  let mut main_arena = Some(arena);
  if teardown {
    // refs must equal the number of threads that drop their arena value (the model's initial count): those threads got
    // real clones above, the others a non-owning bitwise alias (see below), and our own value goes now
    drop(main_arena.take());
  }
  let t0 = Instant::now();
  let wait_all = |which: &dyn Fn(usize) -> bool| loop {
    if HUNG.load(Ordering::SeqCst) || DIVERGED.load(Ordering::SeqCst) {
      break;
    }
    if (0..n).filter(|t| which(*t)).all(|t| FINISHED[t].load(Ordering::SeqCst)) {
      break;
    }
    if t0.elapsed() > Duration::from_secs(60) {
      break;
    }
    std::thread::sleep(Duration::from_millis(5));
  };
  if let Some(sv) = survivor {
    // wait until the forced prefix (setup + victim's steps) has been consumed, the victim is then left blocked for ever
    loop {
      // the victim has performed its last forced access once it is parked at its next one (or has finished)
      if POS.load(Ordering::SeqCst) >= inp.schedule.len() && (PARKED.load(Ordering::SeqCst) || inp.dead.map(|d| FINISHED[d].load(Ordering::SeqCst)).unwrap_or(true)) {
        break;
      }
      if DIVERGED.load(Ordering::SeqCst) || t0.elapsed() > Duration::from_secs(30) {
        break;
      }
      std::thread::sleep(Duration::from_millis(2));
    }
    // the file as the page cache holds it now is opened again (the victim's mapping is simply abandoned)
    let f = inp.file.clone().expect("crash replay needs a file");
    verif_hook::set_callback(None);
    let re = unsafe { opts(&inp).with_create(false).with_read(true).with_write(true).map_mut::<Arena, _>(&f) };
    match re {
      Err(e) => {
        println!("RESULT reopen_failed {e}");
        std::process::exit(1);
      }
      Ok(re) => {
        let cur = re.allocated() as u32;
        if cur < dofs || cur > inp.cap {
          println!("RESULT cursor_out_of_range {cur}");
          std::process::exit(1);
        }
        BASE.store(re.raw_ptr() as usize, Ordering::SeqCst);
        POS.store(inp.schedule.len(), Ordering::SeqCst);
        verif_hook::set_callback(Some(cb));
        let prog = inp.progs[sv].clone();
        let pat = inp.patterns[sv];
        let cap = inp.cap;
        let h = std::thread::spawn(move || run_prog(re, sv, &prog, pat, dofs, cap, &[]));
        wait_all(&|t| t == sv);
        let _ = h;
      }
    }
  } else {
    wait_all(&|_| true);
  }
  let log = LOG.lock().unwrap().clone();
  let mut trace_ok = true;
  if !inp.trace.is_empty() {
    for (i, (t, off)) in inp.trace.iter().enumerate() {
      match log.get(i) {
        Some((lt, lo)) if lt == t && (*off == u64::MAX || lo == off) => {}
        other => {
          println!("TRACE mismatch at forced step {i}: model (thread {t}, offset {off}) native {other:?}");
          trace_ok = false;
          break;
        }
      }
    }
  }
  if !inp.crash && !teardown {
    let p = base_ptr;
    let words: Vec<String> = (0..inp.cap / 8).map(|i| format!("{:x}", unsafe { (p.add(8 * i as usize) as *const u64).read() })).collect();
    println!("FINAL {}", words.join(" "));
  }
  let viol = VIOLATIONS.lock().unwrap().clone();
  for v in &viol {
    println!("NATIVE {v}");
  }
  if DIVERGED.load(Ordering::SeqCst) {
    println!("RESULT diverged at schedule position {} of {}", POS.load(Ordering::SeqCst), inp.schedule.len());
    std::process::exit(3);
  }
  if HUNG.load(Ordering::SeqCst) {
    let who: Vec<usize> = (0..n).filter(|t| !FINISHED[*t].load(Ordering::SeqCst) && Some(*t) != inp.dead).collect();
    println!("RESULT hang: thread(s) {who:?} made {HANG_LIMIT} further atomic accesses without returning while every other thread had finished");
    std::process::exit(1);
  }
  if !viol.is_empty() {
    println!("RESULT violation");
    std::process::exit(1);
  }
  if inp.expect == "race" {
    // a data race is not observable by a plain run: what is confirmed is that the schedule is a real execution
    println!("RESULT schedule_feasible trace_ok={trace_ok}");
    std::process::exit(if trace_ok { 1 } else { 3 });
  }
  println!("RESULT completed trace_ok={trace_ok}");
  std::process::exit(0);
}
