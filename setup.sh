#!/bin/bash
# Offline setup: nothing to fetch or build ahead of time. Every check rebuilds from /repo's working tree.
set -e
cd "$(dirname "$0")"
python3 -c "import json; json.load(open('MANIFEST.json'))"
command -v cargo >/dev/null && cargo kani --version >/dev/null 2>&1 || { echo "cargo kani not available"; exit 1; }
python3-vt -c "import z3" 2>/dev/null || echo "note: z3 python bindings not importable via python3-vt (Engine M unavailable)"
mkdir -p evidence replays
echo setup ok
