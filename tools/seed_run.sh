#!/bin/bash
# usage: seed_run.sh <seed id dir name under /verif/seeded> <PID> [tier] [extra check args]
# Runs ./check <PID> against a scratch copy of /repo HEAD with the seeded patch applied; never touches /repo or the committed evidence.
S=$1; P=$2; T=${3:-quick}; shift 3
D=/tmp/sr-$S
rm -rf $D; mkdir -p $D
rsync -a --exclude /target --exclude .git /repo/ $D/
( cd $D && patch -p1 -s < /verif/seeded/$S/patch.diff ) || { echo "patch failed"; exit 2; }
mkdir -p /var/tmp/rv-seed/ev /var/tmp/rv-seed/rp
cd /verif
VERIF_REPO=$D VERIF_EVIDENCE_DIR=/var/tmp/rv-seed/ev VERIF_REPLAY_DIR=/var/tmp/rv-seed/rp ./check $P --tier $T "$@" > /var/tmp/rv-seed/$S.$P.out 2> /var/tmp/rv-seed/$S.$P.err
rc=$?
echo "$S $P tier=$T exit=$rc $(grep -c VIOLATION /var/tmp/rv-seed/$S.$P.out) violation lines"
rm -rf $D
