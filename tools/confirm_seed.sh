#!/bin/bash
# usage: confirm_seed.sh <seed dir with patch.diff + seed_demo.rs> <name>
# Confirms in a fresh worktree of /repo HEAD: patch applies, 68 tests still pass, demo fails with it and passes without.
S=$1; N=$2; W=/tmp/confirm-$N
git -C /repo worktree remove --force $W >/dev/null 2>&1; rm -rf $W
git -C /repo worktree add --detach $W HEAD >/dev/null 2>&1 || { echo "$N worktree failed"; exit 2; }
cd $W
if ! git apply --check $S/patch.diff 2>/dev/null; then echo "$N: patch does not apply to HEAD"; git -C /repo worktree remove --force $W; exit 2; fi
git apply $S/patch.diff
T=$(cargo test --workspace --offline 2>&1 | grep -E "^test result" | sed -n 2p)
mkdir -p rarena-allocator/tests; cp $S/seed_demo.rs rarena-allocator/tests/seed_demo.rs
D1=$(timeout 300 cargo test -p rarena-allocator --offline --features memmap --test seed_demo 2>&1 | grep -E "^test result" | tail -1)
git apply -R $S/patch.diff
D0=$(timeout 300 cargo test -p rarena-allocator --offline --features memmap --test seed_demo 2>&1 | grep -E "^test result" | tail -1)
echo "$N | suite with patch: $T | demo with patch: $D1 | demo without: $D0"
cd /; git -C /repo worktree remove --force $W
