#!/usr/bin/env python3
"""Regenerates /verif/MANIFEST.json from the table below (single source of truth for the interface)."""
import json, os, sys
V = os.path.dirname(os.path.dirname(os.path.abspath(__file__)))

K_NOTE = ("Trusted: Kani 0.68 / CBMC 6.11 / cadical; rustc's MIR for the `alloc` feature build (dev profile); Vec backing only "
          "(mmap/file constructors are FFI); bounds per harness are listed in the evidence (arena capacity, free-list length, unwind), "
          "everything outside them is outside the claim; the symbolic pre-state is any state satisfying INV, which the same harnesses show inductive.")
M_NOTE = ("Trusted: the nightly MIR dump of the crate (cfg off), the mirsmt MIR->SMT translator (validated on every run against native runs of the real functions "
          "and by replaying counterexamples), z3; executions are interleavings of atomic accesses (sequential consistency), bounded threads/steps/arena size as listed in the evidence.")

CHECKS = {
 # pid: (engine, technique, level text, design_ref, note)
}

def add(pid, engine, technique, text, ref, note):
    CHECKS[pid] = (engine, technique, text, ref, note)

exec(open(os.path.join(V, "tools", "manifest_table.py")).read())

def main():
    checks = []
    for pid in sorted(CHECKS):
        engine, technique, text, ref, note = CHECKS[pid]
        checks.append({
            "property_id": pid,
            "quick_cmd": "./check %s --tier quick" % pid,
            "thorough_cmd": "./check %s --tier thorough" % pid,
            "evidence_file": "/verif/evidence/%s.json" % pid,
            "replay_cmd_template": "./check %s --replay {path}" % pid,
            "engine": engine,
            "level_claimed": {"category": "model_checking", "text": text, "design_ref": ref},
            "level_note": note,
            "technique": technique,
        })
    props = [json.loads(l)["id"] for l in open(os.path.join(V, "properties.jsonl"))]
    na = [{"property_id": p, "reason": NOT_APPLICABLE[p]} for p in props if p not in CHECKS]
    missing = [p for p in props if p not in CHECKS and p not in NOT_APPLICABLE]
    assert not missing, missing
    man = {
        "version": 1,
        "setup_cmd": "./setup.sh",
        "hooks": HOOKS,
        "engines": ENGINES,
        "checks": checks,
        "notes": NOTES,
        "not_applicable": na,
    }
    with open(os.path.join(V, "MANIFEST.json"), "w") as f:
        json.dump(man, f, indent=1)
        f.write("\n")
    try:
        import jsonschema
        jsonschema.validate(man, json.load(open("/root/.vp/MANIFEST.schema.json")))
        print("MANIFEST.json valid;", len(checks), "checks,", len(na), "not applicable")
    except ImportError:
        print("written (jsonschema not importable here)")

if __name__ == "__main__":
    main()
