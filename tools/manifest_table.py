# Table read by gen_manifest.py.  add(pid, engine, technique, level text, design ref, level note)
HOOKS = {
    "guard": "rarena_verif",
    "enable": "RUSTFLAGS=\"--cfg rarena_verif\" (only the native replay harness of Engine M is built that way; Engine K overlays cfg(kani) harness modules into a scratch copy and Engine M dumps MIR with the cfg off)",
    "baseline_off_cmd": "cd /repo && cargo test --workspace --no-fail-fast --offline",
    "source_commits": ["0d10850"],
    "add_only": True,
}
ENGINES = [
    {"name": "K", "path": "/verif/engine_k", "kind_free_text": "Kani 0.68 / CBMC 6.11 bounded model checking of the real crate; harness modules overlaid into a scratch copy of /repo's working tree on every run",
     "serves_properties": ["C01", "C03", "C04", "C08", "C09", "C10", "C11", "C13", "C14", "C15", "C16", "C17", "C18", "C19", "C20"]},
    {"name": "M", "path": "/verif/mirsmt", "kind_free_text": "mirsmt: own MIR->SMT bounded model checker for thread interleavings, crash points and happens-before (nightly -Zunpretty=mir dump of the current tree -> per-thread guarded transition systems -> plan-based unrolling -> z3 bit-blast+SAT); counterexamples are replayed on the real code through the cfg(rarena_verif) atomics hook",
     "serves_properties": ["C02", "C06", "C07", "C09", "C12"]},
]
NOTES = ("Exit codes of ./check: 0 held / 1 reproduced unlisted VIOLATION / 2 machinery could not decide (never disguised as 0). "
         "Known findings: /verif/known_findings.json. Design: /verif/DESIGN.md.")

KT = "Kani/CBMC bounded model checking of the compiled crate: inductive step from a symbolic INV arena state, SAT-decided"
add("C01", "K", KT, "For every symbolic quiescent arena state satisfying INV (CAP=128, <=2 free nodes, arbitrary bytes/cursor/min-segment) one real alloc/dealloc with arbitrary arguments keeps every live range exclusive, in bounds and untouched, and re-establishes INV; so the claim extends to histories of any length within the bounds.", "DESIGN.md#c01", K_NOTE)
add("C03", "K", KT, "Capacity/alignment post-conditions of alloc_bytes / alloc::<T> / alloc_aligned_bytes::<T> decided for all cursors and free-list shapes within the bounds, one harness per T instantiation.", "DESIGN.md#c03", K_NOTE)
add("C04", "K", KT + "; request size unconstrained u32", "Every u32 request size from any INV state: success or clean error with state unchanged; Kani overflow/pointer checks on; release-profile replay of counterexamples.", "DESIGN.md#c04", K_NOTE)
add("C08", "K", KT, "Symbolic witness index inside the returned buffer reads zero, from arbitrary prior bytes, cursor and free list.", "DESIGN.md#c08", K_NOTE)
add("C10", "K", KT + " with a policy oracle restated from the README", "INV (finite, aligned, disjoint, ordered list) re-established by every step; Optimistic/Pessimistic/None policy oracle compared with the real result.", "DESIGN.md#c10", K_NOTE)
add("C14", "K", "Kani/CBMC: put/get round trip and bounds for every value, fill level, per integer type and byte order", "All values x all fill levels of a 16-byte buffer carved from a larger arena: in-bounds, len accounting, round-trip, witness byte outside unchanged.", "DESIGN.md#c14", K_NOTE)
add("C15", "K", "Kani/CBMC: arena-level readers for every usize offset and cursor", "offset: any usize, cursor: any; Ok iff the value lies below allocated() and equals the reference decode; varints never read at or above allocated().", "DESIGN.md#c15", K_NOTE)
add("C16", "K", "Kani/CBMC: layout formulae and accessors for symbolic options", "data_offset / reserved / construction failure / remaining() identities for symbolic reserved and capacity; reserved-prefix witness byte in every INV step.", "DESIGN.md#c16", K_NOTE)
add("C17", "K", "Kani/CBMC: rewind over the full u32/i64 position range against an i128 reference; clear vs fresh arena", "Full-range ArenaPosition from any cursor equals clamp(reference); clear() from any INV state equals a fresh arena (witness byte).", "DESIGN.md#c17", K_NOTE)
add("C19", "K", "Kani/CBMC: recording checksummer shows the update slices tile allocated_memory()[reserved..]", "Real 4096-byte page size, CAP = 3 pages + 64, any cursor, reserved <= 64: chunks are contiguous, in order, cover exactly the range.", "DESIGN.md#c19", K_NOTE)
add("C20", "K", KT + " with a discarded-delta oracle", "Delta of discarded() per operation from any INV state equals the oracle; discard_freelist returns the list sum and empties the list.", "DESIGN.md#c20", K_NOTE)

add("C09", "K+M", "Kani/CBMC: sanity_check for all 2^64 identification-byte values, read-only mutators with a witness byte; mirsmt effects mode: symbolic pass over the MIR of map_mut_in / map_in with opaque callees, z3 path feasibility", "The identification check every open runs is decided exhaustively (memmap feature build); on an arena whose read-only flag is set every mutating call of the safe API is refused and no byte changes; on every path of the real open functions no byte of an existing file is written before the check has passed, a file smaller than the header is never accepted, and the read-only open never writes.", "DESIGN.md#c09", K_NOTE + " Effects mode: non-crate callees are arbitrary-valued opaque calls, unwinding paths not followed, sanity_check/write_sanity summarised.")
add("C11", "K", "Kani/CBMC differential: the same symbolic INV state and call on one arena of each flavour", "Same results, observables and free-list contents for alloc_bytes / aligned / typed / dealloc / discard_freelist / rewind / knobs / clear from any INV state (CAP=96, <=2 nodes).", "DESIGN.md#c11", K_NOTE)
add("C13", "K", "Kani/CBMC twin-arena differential: Drop vs. one explicit dealloc of the buffer extent; drop counters; refs()", "Dropping a handle (borrowed, owned, typed with a Drop value) leaves exactly the state one dealloc of its extent leaves, detached handles release nothing, values are dropped exactly once, refs() counts live arena values over clone/owned/drop orders; Kani's pointer checks catch use-after-free/double free. Multi-threaded clone/drop is not covered.", "DESIGN.md#c13", K_NOTE)
add("C18", "K", "Kani/CBMC: truncate from history-built states with symbolic contents / follow-up request", "capacity == max(n, allocated), observables, free list and every byte below the cursor unchanged, follow-up allocation succeeds iff it fits or the list serves it; new size concrete per harness in the quick tier (symbolic in thorough), Vec backing only.", "DESIGN.md#c18", K_NOTE)
MT = "mirsmt: MIR->SMT bounded model checking of thread interleavings (z3 bit-blast + SAT), counterexamples replayed natively through the rarena_verif hook"
add("C02", "M", MT, "For each listed family (two threads running alloc/dealloc programs from a set-up arena state, symbolic request sizes, all schedules with <= 2 (quick) / 3 (thorough) context switches): no overlap of live ranges, no range outside the data area, no change of a live buffer's bytes, no invalid atomic access, no panic.", "DESIGN.md#c02", M_NOTE)
add("C06", "M", MT + "; crash point = solver-chosen step", "The victim thread dies after any number of steps of its operation, the file image is reopened (zeroing above the stored cursor as map_mut does), a fresh thread runs one more operation: cursor in range, ranges returned before the crash stay exclusive, the operation terminates.", "DESIGN.md#c06", M_NOTE)
add("C07", "M", MT + "; spin-wait (stutter) detection", "No reachable state in which a thread repeats a state-preserving step while every other thread has finished, and every thread finishes within its step bound, for all schedules of the family shapes.", "DESIGN.md#c07", M_NOTE)
add("C12", "M", MT + "; vector clocks from the Ordering constants in the MIR", "No pair of non-atomic accesses (client write/read, arena zeroing) to a solver-chosen witness byte by different threads without a happens-before edge built from the orderings the code passes; teardown (unmount) is not covered.", "DESIGN.md#c12", M_NOTE)

NOT_APPLICABLE = {
 "C05": "the reopen path (map_mut / map / map_copy closures in memory.rs) is mmap and file I/O behind FFI: Kani cannot execute it and the MIR->SMT encoder has no model of the mapping objects; what is solver-decidable about reopening (the identification check, the zeroing above the cursor in the crash model of C06, data_offset formulae) is claimed under C09, C06 and C16 instead",
}
