# Table read by gen_manifest.py.  add(pid, engine, technique, level text, design ref, level note)
HOOKS = {
    "guard": "rarena_verif",
    "enable": "none needed at present: Engine K overlays its harness modules into a scratch copy of /repo (cfg(kani)); no source hook has been committed to /repo",
    "baseline_off_cmd": "cd /repo && cargo test --workspace --no-fail-fast --offline",
    "source_commits": [],
    "add_only": True,
}
ENGINES = [
    {"name": "K", "path": "/verif/engine_k", "kind_free_text": "Kani 0.68 / CBMC 6.11 bounded model checking of the real crate; harness modules overlaid into a scratch copy of /repo's working tree on every run",
     "serves_properties": ["C01", "C03", "C04", "C08", "C10", "C14", "C15", "C16", "C17", "C19", "C20"]},
]
NOTES = ("Exit codes of ./check: 0 held / 1 reproduced unlisted VIOLATION / 2 machinery could not decide (never disguised as 0). "
         "Known findings: /verif/known_findings.json. Design: /verif/DESIGN.md.")

KT = "Kani/CBMC bounded model checking of the compiled crate: inductive step from a symbolic INV arena state, SAT-decided"
add("C01", "K", KT, "For every symbolic quiescent arena state satisfying INV (CAP=128, <=2 free nodes, arbitrary bytes/cursor/min-segment) one real alloc/dealloc with arbitrary arguments keeps every live range exclusive, in bounds and untouched, and re-establishes INV; so the claim extends to histories of any length within the bounds.", "DESIGN.md#c01", K_NOTE)
add("C03", "K", KT, "Capacity/alignment post-conditions of alloc_bytes / alloc::<T> / alloc_aligned_bytes::<T> decided for all cursors and free-list shapes within the bounds, one harness per T instantiation.", "DESIGN.md#c03", K_NOTE)
add("C04", "K", KT + "; request size unconstrained u32", "Every u32 request size from any INV state: success or clean error with state unchanged; Kani overflow/pointer checks on; release-profile replay of counterexamples.", "DESIGN.md#c04", K_NOTE)
add("C08", "K", KT, "Symbolic witness index inside the returned buffer reads zero, from arbitrary prior bytes, cursor and free list.", "DESIGN.md#c08", K_NOTE)
add("C10", "K", KT + " with a policy oracle restated from the README", "INV (finite, aligned, disjoint, ordered list) re-established by every step; Optimistic/Pessimistic/None policy oracle compared with the real result.", "DESIGN.md#c10", K_NOTE)
add("C14", "K", "Kani/CBMC: put/get round trip and bounds for every value, fill level, per integer type and byte order", "All values x all fill levels of a 16-byte buffer carved from a larger arena: in-bounds, len accounting, round-trip, witness byte outside unchanged.", "DESIGN.md#c14", K_NOTE)
add("C15", "K", "Kani/CBMC: arena-level readers for every usize offset and cursor", "offset: any usize, cursor: any; Ok iff the value lies below allocated() and equals the reference decode; varints never read at or above allocated().", "DESIGN.md#c15", K_NOTE)
add("C16", "K", "Kani/CBMC: layout formulae and accessors for symbolic options", "data_offset / reserved / construction failure / remaining() identities for symbolic reserved and capacity; reserved-prefix witness byte in every INV step.", "DESIGN.md#c16", K_NOTE)
add("C17", "K", "Kani/CBMC: rewind over the full u32/i64 position range against an i128 reference; clear vs fresh arena", "Full-range ArenaPosition from any cursor equals clamp(reference); clear() from any INV state equals a fresh arena (witness byte).", "DESIGN.md#c17", K_NOTE)
add("C19", "K", "Kani/CBMC: recording checksummer shows the update slices tile allocated_memory()[reserved..]", "Real 4096-byte page size, CAP = 3 pages + 64, any cursor, reserved <= 64: chunks are contiguous, in order, cover exactly the range.", "DESIGN.md#c19", K_NOTE)
add("C20", "K", KT + " with a discarded-delta oracle", "Delta of discarded() per operation from any INV state equals the oracle; discard_freelist returns the list sum and empties the list.", "DESIGN.md#c20", K_NOTE)

NOT_APPLICABLE = {
 "C02": "Engine M (MIR->SMT interleaving BMC) is under construction; not claimed until its queries run end-to-end",
 "C05": "reopen path is mmap/file I/O (FFI); Engine M effects mode not yet built",
 "C06": "Engine M crash queries not yet built",
 "C07": "Engine M lasso queries not yet built",
 "C09": "Kani harnesses for sanity_check/read-only mutators not yet registered",
 "C11": "differential sync/unsync harnesses not yet built",
 "C12": "Engine M happens-before queries not yet built",
 "C13": "handle-layer harnesses not yet built",
 "C18": "truncate harnesses not yet built",
}
