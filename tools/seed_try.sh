#!/bin/bash
# developer helper: run a property's check against a seeded worktree without touching /repo or the committed evidence
# usage: seed_try.sh <worktree-or-repo-dir> <PID> [tier] [--only substr]
D=$1; P=$2; T=${3:-quick}; shift 3
mkdir -p /var/tmp/rv-seed/ev /var/tmp/rv-seed/rp
cd /verif
VERIF_REPO=$D VERIF_EVIDENCE_DIR=/var/tmp/rv-seed/ev VERIF_REPLAY_DIR=/var/tmp/rv-seed/rp ./check $P --tier $T "$@" 2>/var/tmp/rv-seed/$P.$(basename $D).err | tee /var/tmp/rv-seed/$P.$(basename $D).out
echo "exit=${PIPESTATUS[0]}"
