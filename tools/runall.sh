#!/bin/bash
# developer helper: run the quick tier of the given properties sequentially, logs under /var/tmp/rv-logs
mkdir -p /var/tmp/rv-logs
cd /verif
for p in "$@"; do
  s=$(date +%s)
  ./check $p --tier ${TIER:-quick} > /var/tmp/rv-logs/$p.out 2> /var/tmp/rv-logs/$p.err
  echo "$p rc=$? $(( $(date +%s) - s ))s" | tee -a /var/tmp/rv-logs/summary.txt
done
