"""Effects mode, construction obligations (C16 for the file-backed and anonymous-map constructors): one symbolic
pass over the MIR of `Memory::map_mut_in` (paths with create_new = true), `Memory::map_anon` and
`Options::data_offset_in`, callees outside the crate opaque with recorded effects; z3 decides per accepting path:

  L0  Options::data_offset_in(reserved, unify) (what Options::data_offset / data_offset_unify return) is
      align8(reserved) + 8 + size_of(Header) for the unified layout and reserved + 1 for the plain one.
  L1  creating a file-backed arena: the stores are the zeroing of the whole mapping, then the identification bytes
      at [reserved, reserved + 8) (write_sanity(freelist as u8, magic_version, ..)) and the header at
      align8(reserved) + 8 (Header::new(data_offset as u32, minimum_segment_size)); nothing else is stored, in
      particular nothing into the reserved prefix after the zeroing; the returned Memory has cap = mapping length,
      reserved, data_offset = the unified formula of L0, header_ptr = Left(align8(reserved) + 8), unify, !read_only,
      freelist / magic_version / max_retries of the options.
  L2  creating an anonymous-map arena: zeroing of the whole map first; with unify the same two stores as L1 and
      the unified layout, without unify no further store, data_offset = reserved + 1 and the header kept outside the
      map (Right(Header::new(reserved + 1, minimum_segment_size))); the Memory's unify flag is the option's.

usage: python3-vt -m mirsmt.create <mir_memmap.txt> <src dir> <out.json>"""
import sys, re, json, time
import z3
from . import mir, sym
from .sym import Tup, Enum, LocalRef, bv, Frame
from .mir import Unsupported
from .effects import Sym, feasible
from .reopen import (RExec, explore, prove, eff_by_result, is_err_of, z64, same, opt_field, init_open, create_new_of, mapping_facts,
                     FILE_MUTATORS, H_SIZE, RES_MAX)


def classify(ex, guard, acc, effs, w, P, L, f, opts_vals):
    """which of the three legitimate construction stores is `w`? -> 'zero' | 'sanity' | 'header' | None"""
    fn = w["func"]
    a = w["args"]
    if "write_bytes" in fn and len(a) == 3 and a[0] is P:
        ok, _ = prove(ex, guard, acc, z3.And(z64(a[1]) == 0, z64(a[2]) == L))
        return "zero" if ok else None
    if "write_sanity" in fn and len(a) == 3:
        sl = eff_by_result(effs, a[2])
        base = eff_by_result(effs, sl["args"][0]) if sl is not None and "from_raw_parts_mut" in sl["func"] else None
        if base is None or not base["func"].endswith("::add") or base["args"][0] is not P:
            return None
        fl, mv = opts_vals["freelist"], opts_vals["magic_version"]
        fld = fl.discr if not isinstance(fl.discr, int) else bv(fl.discr, 64)
        want_fl = z3.Extract(a[0].size() - 1, 0, fld) if isinstance(a[0], z3.BitVecRef) and a[0].size() < 64 else fld
        ok, _ = prove(ex, guard, acc, z3.And(z64(base["args"][1]) == f["res64"], z64(sl["args"][1]) == 8, same(a[0], want_fl), same(a[1], mv)))
        return "sanity" if ok else None
    if fn.endswith("::write") and len(a) == 2:
        c = eff_by_result(effs, a[0])
        b = eff_by_result(effs, c["args"][0]) if c is not None and "::cast" in c["func"] else None
        h = eff_by_result(effs, a[1])
        if b is None or not b["func"].endswith("::add") or b["args"][0] is not P or h is None or not h["func"].endswith("Header>::new"):
            return None
        ok, _ = prove(ex, guard, acc, z3.And(z64(b["args"][1]) == f["hoff"], same(h["args"][0], z3.Extract(31, 0, f["dofs"])), same(h["args"][1], opts_vals["minimum_segment_size"])))
        return "header" if ok else None
    return None


def check_constructor(mir_text, src, label, entry, oid, file_backed):
    if file_backed:
        init = init_open
    else:
        def init(ex, prog, fr):
            opts = Sym("opts", "options::Options")
            fr.locals[1] = opts
            return {"opts": opts}
    prog, ex, ends, ctx, fname = explore(mir_text, src, entry, init)
    opts = ctx["opts"]
    mem_names = prog.structs.get(("memory", "Memory"))
    viol = []
    n_paths = n_ok = n_unify = n_plain = 0
    for e in ends:
        if e.kind != "done":
            continue
        n_paths += 1
        effs = e.stack[0].locals.get("EFF", ())
        is_err = is_err_of(e.info)
        acc = [z3.Not(is_err)]
        if file_backed:
            cn = create_new_of(effs)
            if cn is None:
                continue
            acc.append(cn)
        res0 = opt_field(prog, opts, "reserved")
        if res0 is not None:
            acc.append(z3.ULE(z64(res0), RES_MAX))
        if feasible(ex, e.guard, acc) != z3.sat:
            continue
        n_ok += 1
        try:
            f = mapping_facts(prog, ex, effs, opts, False)
        except Unsupported as u:
            viol.append({"why": str(u)})
            continue
        if "P" not in f or "L" not in f:
            viol.append({"why": "mapping pointer/length not obtained from the map object"})
            continue
        P, L = f["P"], z64(f["L"])
        ov = {k: opt_field(prog, opts, k) for k in ("freelist", "magic_version", "minimum_segment_size", "unify", "maximum_retries")}
        if any(ov[k] is None for k in ("freelist", "magic_version", "minimum_segment_size")):
            viol.append({"why": "freelist / magic_version / minimum_segment_size of the options are not read on an accepting path"})
            continue
        unify = z3.BoolVal(True) if file_backed else ov["unify"]
        if unify is None:
            viol.append({"why": "Options::unify is not read by map_anon"})
            continue
        for x in effs:
            if any(m in x["func"] for m in FILE_MUTATORS):
                viol.append({"call": x["func"], "why": "file-level mutator while creating the arena"})
        writes = [x for x in effs if x["kind"] == "write"]
        tags = [classify(ex, e.guard, acc, effs, w, P, L, f, ov) for w in writes]
        if None in tags:
            w = writes[tags.index(None)]
            viol.append({"write": w["func"], "args": [repr(a)[:70] for a in w["args"]], "why": "store during construction that is neither the zeroing of the whole mapping, the identification bytes at [reserved, reserved+8) nor the header at align8(reserved)+8"})
            continue
        if not tags or tags[0] != "zero" or "zero" in tags[[t != "zero" for t in tags].index(True) if any(t != "zero" for t in tags) else len(tags):]:
            viol.append({"stores": tags, "why": "the mapping is not zeroed first (or is zeroed again after the header was written)"})
        is_unify_path = feasible(ex, e.guard, acc + [unify]) == z3.sat
        is_plain_path = (not file_backed) and feasible(ex, e.guard, acc + [z3.Not(unify)]) == z3.sat
        rest = sorted(t for t in tags if t != "zero")
        if is_unify_path and not is_plain_path:
            n_unify += 1
            if rest != ["header", "sanity"]:
                viol.append({"stores": tags, "why": "unified layout: identification bytes and header are not each written exactly once"})
        elif is_plain_path and not is_unify_path:
            n_plain += 1
            if rest:
                viol.append({"stores": tags, "why": "plain layout: a store into the map besides the zeroing"})
        else:
            viol.append({"why": "path does not determine the layout flag"})
            continue
        mem = e.info.variants[0][0]
        if not isinstance(mem, Tup) or len(mem.f) != len(mem_names):
            viol.append({"why": "returned value is not a Memory aggregate"})
            continue
        got = dict(zip(mem_names, mem.f))
        uni = is_unify_path and not is_plain_path
        # construction is refused when the mapping cannot hold the prefix: an accepting path implies length >= prefix
        prefix = f["dofs"] if uni else f["res64"] + 1
        okp, _ = prove(ex, e.guard, acc, z3.UGE(L, prefix))
        if not okp:
            viol.append({"why": "an arena can be constructed although the mapping is shorter than the prefix (reserved bytes, identification bytes, header): data_offset() > capacity()"})
        expect = {
            "cap": z3.Extract(31, 0, L),
            "reserved": f["res64"],
            "data_offset": f["dofs"] if uni else f["res64"] + 1,
            "ptr": P,
            "unify": True if file_backed else ov["unify"],
            "read_only": False,
            "magic_version": ov["magic_version"],
            "freelist": ov["freelist"],
        }
        if uni:
            expect["header_offset"] = f["hoff"]
        if ov["maximum_retries"] is not None:
            expect["max_retries"] = ov["maximum_retries"]
        for k, want in expect.items():
            have = got.get(k)
            if k == "ptr":
                okf = have is want
            else:
                okf, _ = prove(ex, e.guard, acc, same(have, want))
            if not okf:
                viol.append({"field": k, "have": repr(have)[:100], "why": "the constructed Memory's `%s` is not what the layout contract states" % k})
        # descriptive flags: is_map / is_ondisk / is_map_file / is_map_anon are functions of Memory.flag
        fl_ = got.get("flag")
        tags_ = []
        src_fl = eff_by_result(effs, fl_)
        if src_fl is not None and "BitOr" in src_fl["func"]:
            tags_ = sorted(getattr(a_, "tag", "?").split("::")[-1] for a_ in src_fl["args"])
        elif isinstance(fl_, Sym):
            tags_ = [fl_.tag.split("::")[-1]]
        want_tags = ["MMAP", "ON_DISK"] if file_backed else ["MMAP"]
        if tags_ != want_tags:
            viol.append({"field": "flag", "have": tags_, "why": "Memory.flag (what is_map / is_ondisk / is_map_file / is_map_anon report) is not %s" % " | ".join(want_tags)})
        hp = got.get("header_ptr")
        if uni:
            okh = isinstance(hp, Enum) and hp.discr == 0 and prove(ex, e.guard, acc, z64(hp.variants[0][0]) == f["hoff"])[0]
        else:
            okh = False
            if isinstance(hp, Enum) and hp.discr == 1:
                h = eff_by_result(effs, hp.variants[1][0])
                okh = h is not None and h["func"].endswith("Header>::new") and prove(
                    ex, e.guard, acc, z3.And(z64(h["args"][0]) == f["res64"] + 1, same(h["args"][1], ov["minimum_segment_size"])))[0]
        if not okh:
            viol.append({"field": "header_ptr", "why": "header is not where the layout puts it (Left(align8(reserved)+8) unified / Right(Header::new(reserved+1, min segment)) plain)"})
    return [dict(function=fname, paths=n_paths, ok_paths=n_ok, id=oid,
                 text="%s: construction stores = zeroing of the whole mapping, then identification bytes and header at their offsets (unified) or nothing (plain); the Memory reports the layout of Options::data_offset / data_offset_unify (accepting paths: unified %d, plain %d)" % (label, n_unify, n_plain),
                 holds=not viol, witnesses=viol[:4], vacuous=(n_unify == 0 or (not file_backed and n_plain == 0)))]


def check_data_offset_in(mir_text, src):
    prog = sym.Program(mir_text, src)
    cfg = {"mir_text": mir_text, "mem_layouts": {}, "layouts": {("size_of", "H"): H_SIZE, ("align_of", "H"): 8}, "summaries": {}}
    ex = RExec(prog, cfg)
    names = [n for n in prog.raw if re.search(r"::data_offset_in$", n)]
    if len(names) != 1:
        raise Unsupported("Options::data_offset_in not found / ambiguous: %s" % names)
    fn = prog.fn(names[0])
    fr = Frame(fn, ("E",), {}, gen=["H"])
    res32 = z3.BitVec("reserved", 32)
    res = z3.ZeroExt(32, res32)
    unify = z3.Bool("unify")
    fr.locals[1], fr.locals[2] = res, unify
    ends = ex.run([fr], [])
    viol = []
    n = 0
    for e in ends:
        if e.kind != "done":
            continue
        n += 1
        want = z3.If(unify, ((res + 7) & ~bv(7, 64)) + 8 + H_SIZE, res + 1)
        ok, _ = prove(ex, e.guard, [z3.ULE(res, RES_MAX)], same(e.info, want))
        if not ok:
            viol.append({"have": repr(e.info)[:120], "why": "Options::data_offset_in differs from the layout formula"})
        if e.stack[0].locals.get("EFF", ()):
            pass
    return [dict(function=names[0], paths=n, ok_paths=n, id="L0",
                 text="Options::data_offset_in(reserved, unify) = unify ? align8(reserved) + 8 + size_of(Header) : reserved + 1 (reserved <= 2^32 - 256)",
                 holds=not viol and n > 0, witnesses=viol[:2], vacuous=(n == 0))]


def check_capacity_fn(mir_text, src):
    """L3: check_capacity(reserved, unify, capacity) refuses exactly when the capacity cannot hold the prefix"""
    prog = sym.Program(mir_text, src)
    cfg = {"mir_text": mir_text, "mem_layouts": {}, "layouts": {("size_of", "H"): H_SIZE, ("align_of", "H"): 8}, "summaries": {}}
    ex = RExec(prog, cfg)
    names = [n for n in prog.raw if re.search(r"(^|::)check_capacity$", n)]
    if len(names) != 1:
        raise Unsupported("check_capacity not found / ambiguous: %s" % names)
    fn = prog.fn(names[0])
    fr = Frame(fn, ("E",), {}, gen=["H"])
    res32 = z3.BitVec("reserved", 32)
    res = z3.ZeroExt(32, res32)
    unify = z3.Bool("unify")
    cap = z3.BitVec("capacity", 64)
    fr.locals[1], fr.locals[2], fr.locals[3] = res, unify, cap
    ends = ex.run([fr], [])
    viol = []
    n = 0
    hoff = ((res + 7) & ~bv(7, 64)) + 8
    prefix = z3.If(unify, hoff + H_SIZE, res + 1)
    want_off = z3.If(unify, hoff, res + 1)
    bound = [z3.ULE(res, RES_MAX), z3.ULE(cap, bv(0xFFFFFFFF, 64))]
    for e in ends:
        if e.kind != "done":
            continue
        n += 1
        is_err = is_err_of(e.info)
        ok1, _ = prove(ex, e.guard, bound, is_err == z3.UGT(prefix, cap))
        if not ok1:
            viol.append({"why": "check_capacity does not refuse exactly when prefix_size > capacity"})
        if feasible(ex, e.guard, bound + [z3.Not(is_err)]) == z3.sat:
            ok2, _ = prove(ex, e.guard, bound + [z3.Not(is_err)], z64(e.info.variants[0][0]) == want_off)
            if not ok2:
                viol.append({"why": "check_capacity returns a header offset other than align8(reserved)+8 (unified) / reserved+1 (plain)"})
    return [dict(function=names[0], paths=n, ok_paths=n, id="L3",
                 text="check_capacity(reserved, unify, capacity): Err iff the prefix (align8(reserved)+8+size_of(Header) unified, reserved+1 plain) exceeds the capacity, else the header offset (reserved <= 2^32 - 256, capacity <= u32::MAX)",
                 holds=not viol and n > 0, witnesses=viol[:2], vacuous=(n < 2))]


def check_mode_accessors(mir_text, src):
    """L4: the mode accessors are the stated functions of Memory.flag (whose value per constructor L1/L2 and R3/R4 decide):
    is_map = flag.contains(MMAP), is_ondisk = flag.contains(ON_DISK), is_inmemory = !is_ondisk,
    is_map_anon = is_map && !is_ondisk, is_map_file = is_map && is_ondisk"""
    viol = []
    total = 0
    fname0 = None
    for nm in ("is_map", "is_ondisk", "is_inmemory", "is_map_anon", "is_map_file"):
        def init(ex, prog, fr):
            fr.locals[1] = Sym("self", "&Self")
            return {}
        try:
            prog, ex, ends, ctx, fname = explore(mir_text, src, r"^allocator::Allocator::%s$" % nm, init)
        except Unsupported as u:
            viol.append({"function": nm, "why": "not explored: %s" % u})
            continue
        fname0 = fname0 or fname
        for e in ends:
            if e.kind != "done":
                if e.kind == "panic":
                    viol.append({"function": nm, "why": "a mode accessor can panic"})
                continue
            total += 1
            effs = e.stack[0].locals.get("EFF", ())
            res = e.info if isinstance(e.info, z3.BoolRef) else z3.BoolVal(bool(e.info))
            if nm in ("is_map", "is_ondisk"):
                want_flag = "MMAP" if nm == "is_map" else "ON_DISK"
                cs = [x for x in effs if x["func"].endswith("::contains") and len(x["args"]) == 2 and getattr(x["args"][1], "tag", "").endswith("MemoryFlags::" + want_flag)]
                asr = [x for x in effs if "AsRef<memory::Memory" in x["func"]]
                ok = len(cs) == 1 and bool(asr) and prove(ex, e.guard, [], res == cs[0]["result"])[0]
                if not ok:
                    viol.append({"function": nm, "why": "%s is not flag.contains(%s) of the arena's Memory" % (nm, want_flag)})
                continue
            m_ = [x["result"] for x in effs if x["func"].endswith("::is_map")]
            d_ = [x["result"] for x in effs if x["func"].endswith("::is_ondisk")]
            # a path that returned early did so because of the value it had already obtained: complete the formula with that guard
            im = m_[0] if m_ else None
            io = d_[0] if d_ else None
            if nm == "is_inmemory":
                ok = io is not None and prove(ex, e.guard, [], res == z3.Not(io))[0]
            else:
                if im is None:
                    ok = False
                elif io is None:
                    # short-circuit path: only possible when is_map is false, result false
                    ok = prove(ex, e.guard, [], z3.And(z3.Not(im), z3.Not(res)))[0]
                else:
                    want = z3.And(im, z3.Not(io)) if nm == "is_map_anon" else z3.And(im, io)
                    ok = prove(ex, e.guard, [], res == want)[0]
            if not ok:
                viol.append({"function": nm, "why": "%s is not the stated combination of is_map / is_ondisk" % nm})
    return [dict(function=fname0 or "allocator::Allocator::is_*", paths=total, ok_paths=total, id="L4",
                 text="mode accessors: is_map = flag.contains(MMAP), is_ondisk = flag.contains(ON_DISK), is_inmemory = !is_ondisk, is_map_anon = is_map && !is_ondisk, is_map_file = is_map && is_ondisk",
                 holds=not viol, witnesses=viol[:4], vacuous=(total < 7))]


def main():
    mir_text = open(sys.argv[1]).read()
    mir_text = re.sub(r"// MIR FOR CTFE\nfn .*?^\}\n", "", mir_text, flags=re.S | re.M)
    src = sys.argv[2]
    out = {"obligations": [], "error": None}
    t0 = time.time()
    try:
        out["obligations"] += check_data_offset_in(mir_text, src)
        out["obligations"] += check_capacity_fn(mir_text, src)
        out["obligations"] += check_mode_accessors(mir_text, src)
        out["obligations"] += check_constructor(mir_text, src, "map_mut_in (new file)", r"::map_mut_in$", "L1", True)
        out["obligations"] += check_constructor(mir_text, src, "map_anon", r"^memory::.*::map_anon$", "L2", False)
    except Unsupported as e:
        out["error"] = "unsupported MIR construct: " + str(e)
    out["wall_s"] = round(time.time() - t0, 1)
    import os
    from . import effects as _E
    if os.environ.get("MIRSMT_DIFF"):
        out["second_solver"] = dict(_E.DIFF)
    json.dump(out, open(sys.argv[3], "w"), indent=1, default=str)
    print(json.dumps(out, indent=1, default=str)[:6000])


if __name__ == "__main__":
    main()
