"""Worker process of Engine M: decides one query family.

usage: python3-vt -m mirsmt.worker <spec.json> <out.json>

spec = {name, mir, src, cap, freelist, retries, min_seg,
        init: "fresh" | "inv", maxn (inv only),
        progs: [[action,...],...]   with init == "fresh" thread 0 is the *setup* thread: it runs alone, first, to completion
        args: {"<thread>": {"<arg index>": value | [lo, hi]}},
        steps: [K_t per thread], switches: 1|2|3, first: the concurrent thread that moves first,
        kind: safe | live | hb | crash, timeout_s}

Schedule shapes (X = first, Y = the other concurrent thread; a starred chunk runs its thread until it has finished, the length of
the other chunks is chosen by the solver):  1 switch X* Y*;  2 switches X^a Y* X*;  3 switches X^a Y^b X* Y*.  Every complete
schedule of two threads with at most that many context switches has one of these shapes (for either choice of X).
One query = one SAT problem (z3: simplify, bit-blast, sat) over all chunk lengths, all arguments in their ranges, all outcomes of
compare_exchange_weak within the spurious-failure bound and - for init == "inv" - all initial states satisfying INV."""
import sys, os, json, time, traceback
import z3
from . import world as Wd, bmc, ts as TS
from .mir import Unsupported


def build_threads(w, progs):
    ths = []
    for i, pr in enumerate(progs):
        acts = [tuple(a) for a in pr]
        io = {a[3]: (a[1] - 2, a[2] - 2) for a in acts if a[0] == "free_given"}
        ths.append(w.thread("T%d" % i, "client::prog_%d" % i, nown=max(Wd.nslots(acts), 1), init_owned=io))
    return ths


def client_text(progs):
    return "".join(Wd.client_mir("client::prog_%d" % i, [tuple(a) for a in pr]) for i, pr in enumerate(progs))


def reopen_words(M, w, W):
    """the effect of the writable reopen on the file image (memory.rs map_mut_in: zero [stored cursor, cap))"""
    hw = w.hdr // 8
    allocated = z3.Extract(31, 0, W[hw + 1])
    out = []
    for i in range(M.NW):
        if i >= M.NW - 1 or 8 * i + 7 < w.dofs:
            out.append(W[i])
            continue
        bs = []
        for j in range(7, -1, -1):
            b = 8 * i + j
            keep = z3.ULT(z3.BitVecVal(b, 32), allocated) if b >= w.dofs else z3.BoolVal(True)
            bs.append(z3.If(keep, z3.Extract(8 * j + 7, 8 * j, W[i]), z3.BitVecVal(0, 8)))
        out.append(z3.Concat(*bs))
    return out


def plan_for(spec, nthreads):
    """-> (chunks, free): indices of the chunks whose length the solver chooses; all others run to completion"""
    steps = spec["steps"]
    kind = spec["kind"]
    fresh = spec.get("init", "fresh") == "fresh"
    pre = [(0, steps[0])] if fresh else []
    conc = list(range(1 if fresh else 0, nthreads))
    if spec.get("plan"):
        # explicit shape: [[thread, "f" | "s"], ...]  (f = the solver chooses the chunk's length, s = runs to completion)
        chunks = pre + [(t, steps[t]) for (t, _) in spec["plan"]]
        free = [len(pre) + i for i, (_, m) in enumerate(spec["plan"]) if m == "f"]
        return chunks, free
    if kind == "crash":
        v, s = conc[0], conc[1]
        return pre + [(v, steps[v]), (s, steps[s])], [len(pre)]
    if len(conc) == 1:
        return pre + [(conc[0], steps[conc[0]])], []
    x = spec.get("first", conc[0])
    y = [c for c in conc if c != x][0]
    sw = spec.get("switches", 2)
    if sw <= 1:
        return pre + [(x, steps[x]), (y, steps[y])], []
    if sw == 2:
        return pre + [(x, steps[x]), (y, steps[y]), (x, steps[x])], [len(pre)]
    return pre + [(x, steps[x]), (y, steps[y]), (x, steps[x]), (y, steps[y])], [len(pre), len(pre) + 1]


def run(spec):
    t_start = time.time()
    mir_text = open(spec["mir"]).read()
    progs = spec["progs"]
    kind = spec["kind"]
    w = Wd.World(mir_text, spec["src"], cap=spec["cap"], freelist=spec["freelist"], max_retries=spec.get("retries", 1), extra_mir=client_text(progs))
    ths = build_threads(w, progs)
    T = len(ths)
    chunks, free = plan_for(spec, T)
    M = bmc.Model(spec["cap"], ths, chunks, hb=(kind in ("hb", "teardown")), dofs=w.dofs, spurious=spec.get("spurious", 1),
                  spawner=(0 if spec.get("init", "fresh") == "fresh" else None))
    M.build()
    K = M.K
    inv = None
    if spec.get("init", "fresh") == "fresh":
        init = w.init_fresh(M, min_seg=spec.get("min_seg", 8)) + w.init_threads(M)
    else:
        ic, inv = w.init_inv(M, spec.get("maxn", 1), spec["freelist"])
        init = ic + w.init_threads(M) + w.init_owned_ok(M, inv)
    for i, t in enumerate(ths):
        init.append(t.arg_vars[4] == 0x11 * (i + 1))
        for ai, v in (spec.get("args", {}).get(str(i), {})).items():
            a = t.arg_vars[int(ai)]
            if isinstance(v, list):
                init += [z3.UGE(a, v[0]), z3.ULE(a, v[1])]
            else:
                init.append(a == v)
    if kind in ("hb", "teardown"):
        init += M.hb_init()
    nholders = sum(1 for pr in progs if any(a[0] == "drop_arena" for a in pr))
    if nholders:
        init += w.init_refs(M, nholders)
    dead = set()
    if kind == "crash":
        dead.add(chunks[free[0]][0])
    for k in range(K):
        if M.chunk_of[k] not in free:
            init.append(M.run[k] == z3.Not(M.finished(k, M.plan[k])))
    if kind == "crash":
        kc = sum(n for (_, n) in chunks[: free[0] + 1])
        Wr = reopen_words(M, w, M.W[kc])
        fresh_w = [z3.BitVec("Wre_%d" % i, 64) for i in range(M.NW)]
        pairs = list(zip(M.W[kc], fresh_w))
        M.cons = []
        for k in range(K):
            ti = M.plan[k]
            rel = z3.substitute(M.tmpl[ti]["rel"], *M._pairs(k, ti))
            if k == kc:
                rel = z3.substitute(rel, *pairs)
            M.cons.append(rel)
            if k > 0 and M.chunk_of[k] == M.chunk_of[k - 1]:
                M.cons.append(z3.Implies(z3.Not(M.run[k - 1]), z3.Not(M.run[k])))
        for i in range(M.NW):
            M.cons.append(fresh_w[i] == Wr[i])
    alive = [ti for ti in range(T) if ti not in dead]
    done_end = z3.And([M.finished(K, ti) for ti in alive])
    stuck_terms = []
    for k in range(K):
        ti = M.plan[k]
        if ti in dead:
            continue
        others = [M.finished(k, o) for o in alive if o != ti]
        for per in (1, 2, 3):
            cyc = M.cycle(k, per)
            if cyc is not None:
                stuck_terms.append(z3.And(cyc, *others))
    stuck = z3.Or(stuck_terms) if stuck_terms else z3.BoolVal(False)
    race = M.H[K]["race"] if kind in ("hb", "teardown") else z3.BoolVal(False)
    teardown_bad = z3.BoolVal(False)
    if kind == "teardown":
        tb = []
        # a step taken by any thread after another thread has unmounted the memory (use after free, or a second unmount)
        for k in range(K):
            ti = M.plan[k]
            others_unm = z3.Or([M.F[k][o]["unmounts"] != 0 for o in range(T) if o != ti] or [z3.BoolVal(False)])
            tb.append(z3.And(M.run[k], others_unm))
        total = sum([z3.ZeroExt(5, M.F[K][o]["unmounts"]) for o in range(T)][1:], z3.ZeroExt(5, M.F[K][0]["unmounts"]))
        # when everybody has finished the memory has been released exactly once
        tb.append(z3.And(done_end, total != 1))
        tb.append(total > 1)
        teardown_bad = z3.Or(tb)
    viol = {"safe": M.any_bad(), "crash": z3.Or(M.any_bad(), stuck), "live": stuck, "hb": race,
            "teardown": z3.Or(race, teardown_bad, M.any_bad())}[kind]
    # ---- known roles that a re-run may be asked to exclude, so that a listed finding cannot hide a different violation
    def mark_cas_ok(k):
        ti = M.plan[k]
        t = ths[ti]
        alts = []
        for p_ in t.by_id.values():
            if p_.op["kind"] in ("compare_exchange", "compare_exchange_weak"):
                newv = M._as64(p_.op["args"][2])
                newv = z3.substitute(newv, *M.reg_pairs(ti, M.R[k][ti]))
                alts.append(z3.And(M.pc[k][ti] == p_.id, z3.Extract(63, 32, newv) == 0))
        return z3.And(M.run[k], M.res_ok[k], z3.Or(alts)) if alts else z3.BoolVal(False)

    def cas_failed(k):
        ti = M.plan[k]
        pts = [p_.id for p_ in ths[ti].by_id.values() if p_.op["kind"] in ("compare_exchange", "compare_exchange_weak")]
        return z3.And(M.run[k], z3.Not(M.res_ok[k]), z3.Or([M.pc[k][ti] == i_ for i_ in pts])) if pts else z3.BoolVal(False)

    excl = []
    for role in spec.get("exclude", []):
        if role == "crash_after_mark" and kind == "crash":
            vch = free[0]
            k0 = sum(n for (_, n) in chunks[:vch])
            k1 = k0 + chunks[vch][1]
            for k in range(k0, k1):
                last = z3.Not(M.run[k + 1]) if k + 1 < k1 else z3.BoolVal(True)
                excl.append(z3.And(mark_cas_ok(k), last))
        elif role == "abandoned_mark":
            for k in range(K - 1):
                if M.plan[k + 1] == M.plan[k] and M.chunk_of[k + 1] == M.chunk_of[k]:
                    excl.append(z3.And(mark_cas_ok(k), cas_failed(k + 1)))
    if kind == "crash":
        # the reopened file's cursor lies inside [data_offset, capacity]
        kc_ = sum(n for (_, n) in chunks[: free[0] + 1])
        cur_ = z3.Extract(31, 0, M.W[kc_][w.hdr // 8 + 1])
        viol = z3.Or(viol, z3.ULT(cur_, w.dofs), z3.UGT(cur_, spec["cap"]))
    if excl:
        viol = z3.And(viol, z3.Not(z3.Or(excl)))
    res = {"family": spec["name"], "kind": kind, "chunks": chunks, "free_chunks": free, "steps": K, "points": [len(t.points) for t in ths],
           "regs": [sum(t.regs.values()) for t in ths], "encode_s": round(time.time() - t_start, 1), "queries": [], "cex": None,
           "functions": sorted(set(fr[0] for t in ths for p in t.by_id.values() if p.frames for fr in p.frames))}
    to = spec.get("timeout_s", 900)

    def ask(label, extra):
        tac = z3.Then("simplify", "bit-blast", "sat")
        s = tac.solver()
        s.set("timeout", int(to * 1000))
        s.add(M.cons)
        s.add(init)
        s.add(extra)
        t0 = time.time()
        r = s.check()
        dt = time.time() - t0
        res["queries"].append({"query": label, "verdict": str(r), "solver_s": round(dt, 1)})
        return str(r), (s.model() if r == z3.sat else None)

    if kind == "safe" and spec.get("selftest"):
        # translator self-test: the encoding's prediction of the final memory for a deterministic program, to be
        # compared with what the real code leaves in memory when the same program is run natively
        r, m = ask("selftest: run to completion", [done_end] + [z3.Not(x) for x in M.spur])
        res["verdict"] = "unsat" if r == "sat" else r
        if r == "sat":
            res["selftest"] = {"final_words": [m.eval(x, model_completion=True).as_long() for x in M.W[K][: M.NW - 1]],
                               "violation_in_model": z3.is_true(m.eval(viol, model_completion=True)),
                               "cex": decode_cex(spec, w, ths, M, inv, m, kind, dead)}
        res["solver_s"] = round(sum(q["solver_s"] for q in res["queries"]), 1)
        res["wall_s"] = round(time.time() - t_start, 1)
        return res
    # one query for "some violation, or some thread left unfinished by the step bounds"
    # a thread left unfinished by its step bound - unless the last steps of its final chunk are a wait loop (it is waiting
    # for a thread that this shape does not schedule again before the chunk ends: that execution belongs to the family
    # with one more context switch, not to this one)
    unf = []
    last_chunk = {}
    for ci, (ti, n) in enumerate(chunks):
        last_chunk[ti] = ci
    for ti in alive:
        ke = sum(n for (_, n) in chunks[: last_chunk[ti] + 1])
        waits = []
        for per in (1, 2, 3):
            if ke - per >= 0:
                cyc = M.cycle(ke - per, per)
                if cyc is not None:
                    waits.append(cyc)
        unf.append(z3.And(z3.Not(M.finished(K, ti)), z3.Not(z3.Or(waits)) if waits else z3.BoolVal(True)))
    unfinished = z3.And(z3.Or(unf), z3.Not(stuck))
    r, m = ask("violation or step bound exceeded", [z3.Or(viol, unfinished)])
    if r == "sat" and not z3.is_true(m.eval(viol, model_completion=True)):
        # only the bound disjunct is satisfiable in this model: ask for a real violation separately
        res["bound_ok"] = "sat"
        res["bound_witness"] = [s_["desc"] for s_ in M.decode(m)][-6:]
        r, m = ask("violation", [viol])
    elif r == "unsat":
        res["bound_ok"] = "unsat"
    res["verdict"] = r
    if r == "sat":
        # prefer a counterexample without spurious compare_exchange_weak failures: the native replay uses the strong form
        if any(z3.is_true(m.eval(x, model_completion=True)) for x in M.spur):
            r_ns, m_ns = ask("violation without spurious weak-CAS failures", [viol] + [z3.Not(x) for x in M.spur])
            if r_ns == "sat":
                m = m_ns
            else:
                res["needs_spurious_failure"] = True
        res["cex"] = decode_cex(spec, w, ths, M, inv, m, kind, dead)
    if r == "unsat" and not spec.get("only_violation"):
        r3, _ = ask("reach: all threads finish", [done_end, z3.Not(viol)])
        res["reach_finish"] = r3
        conc = [ti for ti in alive if not (spec.get("init", "fresh") == "fresh" and ti == 0)]
        if kind == "crash":
            v = chunks[free[0]][0]
            kc = sum(n for (_, n) in chunks[: free[0] + 1])
            r4, _ = ask("reach: victim dies inside an operation", [z3.Not(M.finished(kc, v)), z3.UGT(M.pc[kc][v], 0)])
            res["reach_interference"] = r4
        elif kind == "teardown":
            last = [z3.And(done_end, M.F[K][o]["unmounts"] == 1) for o in range(T) if not (spec.get("init", "fresh") == "fresh" and o == 0)]
            r4 = "sat"
            for i_, c_ in enumerate(last):
                rr, _ = ask("reach: thread %d is the one that unmounts" % i_, [c_, z3.Not(viol)])
                if rr != "sat":
                    r4 = rr
            res["reach_interference"] = r4
        elif kind == "hb":
            # the hand-over really happens: the witness byte is written by one thread after another thread wrote it
            ho = [z3.And(M.H[k]["lw_t"] != 255, M.H[k + 1]["lw_t"] != M.H[k]["lw_t"]) for k in range(K)]
            r4, _ = ask("reach: a byte written by one thread is written by another later", [z3.Or(ho)])
            res["reach_interference"] = r4
        elif len(conc) > 1:
            inter = []
            for k in range(K):
                ti = M.plan[k]
                if ti not in conc:
                    continue
                t = ths[ti]
                pts = [p.id for p in t.by_id.values() if p.op["kind"] in ("compare_exchange", "compare_exchange_weak")]
                if pts:
                    inter.append(z3.And(M.run[k], z3.Or([M.pc[k][ti] == p for p in pts]), z3.Not(M.res_ok[k]), z3.Not(M.spur[k])))
            r4, _ = ask("reach: a CAS is lost to the other thread", [z3.Or(inter)] if inter else [z3.BoolVal(False)])
            res["reach_interference"] = r4
    res["solver_s"] = round(sum(q["solver_s"] for q in res["queries"]), 1)
    res["wall_s"] = round(time.time() - t_start, 1)
    return res


def decode_cex(spec, w, ths, M, inv, m, what, dead):
    ev = lambda e: m.eval(e, model_completion=True)
    K = M.K
    cex = {"what": what, "cap": spec["cap"], "freelist": spec["freelist"], "retries": spec.get("retries", 1), "min_seg": spec.get("min_seg", 8),
           "init": spec.get("init", "fresh"), "progs": spec["progs"], "chunks": M.chunks, "data_offset": w.dofs, "header_offset": w.hdr,
           "words0": [ev(x).as_long() for x in M.W[0][: M.NW - 1]],
           "args": [[ev(a).as_long() for a in t.arg_vars] for t in ths],
           "steps": M.decode(m), "dead": sorted(dead)}
    if inv is not None:
        cex["inv"] = {"k": ev(inv["k"]).as_long(), "off": [ev(x).as_long() for x in inv["off"]], "size": [ev(x).as_long() for x in inv["size"]],
                      "allocated": ev(inv["allocated"]).as_long(), "min_seg": ev(inv["min_seg"]).as_long(), "discarded": ev(inv["discarded"]).as_long()}
    cex["schedule"] = [s["thread"] for s in cex["steps"]]
    bad_at = []
    for k in range(K + 1):
        for n, e in M.bad(k).items():
            if z3.is_true(ev(e)):
                bad_at.append([k, n])
                break
        if bad_at:
            break
    cex["bad"] = bad_at
    own = []
    kk = bad_at[0][0] if bad_at else K
    for ti, t in enumerate(ths):
        for j in range(t.nown):
            live, lo, hi, plo, phi = [ev(x) for x in M.own(kk, ti, j)]
            own.append({"thread": ti, "slot": j, "live": z3.is_true(live), "lo": lo.as_long(), "hi": hi.as_long(), "plo": plo.as_long(), "phi": phi.as_long()})
    cex["own_at_violation"] = own
    if what in ("live", "crash"):
        for k in range(K):
            ti = M.plan[k]
            if ti in dead:
                continue
            cyc = [per for per in (1, 2, 3) if M.cycle(k, per) is not None and z3.is_true(ev(M.cycle(k, per)))]
            if cyc and all(z3.is_true(ev(M.finished(k, o))) for o in range(len(ths)) if o != ti and o not in dead):
                cex["spin_period"] = cyc[0]
                a = ev(M.at_step(k, M.tmpl[ti]["spin_addr"])).as_long()
                wv = ev(M.at_step(k, M.tmpl[ti]["spin_word"])).as_long()
                p = ths[ti].by_id.get(ev(M.pc[k][ti]).as_long())
                cex["spin"] = {"k": k, "thread": ti, "addr": a, "word": wv, "point": p.desc if p else "?",
                               "fn": p.frames[-1][0] if p and p.frames else "?"}
                cex["schedule"] = [s["thread"] for s in cex["steps"] if s["k"] < k]
                cex["steps"] = [s for s in cex["steps"] if s["k"] <= k]
                break
    # role marker: a thread marked a node as removed (CAS ok, size field 0 afterwards) and its very next step, the unlink CAS, failed
    am = None
    by_thread = {}
    for s_ in cex["steps"]:
        by_thread.setdefault(s_["thread"], []).append(s_)
    for ti_, ss in by_thread.items():
        for a_, b_ in zip(ss, ss[1:]):
            if a_.get("kind") == "compare_exchange" and a_.get("ok") and (a_.get("word_after", 1 << 40) >> 32) == 0 and \
               b_.get("kind") == "compare_exchange" and b_.get("ok") is False:
                am = {"thread": ti_, "marked_node": a_.get("addr"), "fn": a_["desc"].split()[2] if len(a_["desc"].split()) > 2 else "?"}
    cex["abandoned_mark"] = am
    if what in ("hb", "teardown"):
        cex["witness_byte"] = ev(M.wit).as_long()
    if what == "crash":
        kc_ = sum(n for (ti_, n) in M.chunks if True and (ti_ in dead or (spec.get("init", "fresh") == "fresh" and ti_ == 0)))
        cex["cursor_at_crash"] = ev(z3.Extract(31, 0, M.W[kc_][w.hdr // 8 + 1])).as_long()
        vs = [s for s in cex["steps"] if s["thread"] in dead]
        cex["crash_after_steps"] = len(vs)
        if vs:
            l = vs[-1]
            d = l["desc"].split()
            cex["victim_last"] = "%s@%s:%s:size_after=%s" % (d[0], d[2] if len(d) > 2 else "?", "ok" if l.get("ok", True) else "fail",
                                                              (l["word_after"] >> 32) if "word_after" in l else "-")
    return cex


def main():
    spec = json.load(open(sys.argv[1]))
    try:
        res = run(spec)
    except Unsupported as e:
        res = {"family": spec.get("name"), "error": "unsupported MIR construct: " + str(e)}
    except Exception as e:
        res = {"family": spec.get("name"), "error": "worker exception: " + repr(e), "trace": traceback.format_exc()[-1500:]}
    with open(sys.argv[2], "w") as f:
        json.dump(res, f, indent=1, default=str)


if __name__ == "__main__":
    main()
