"""Worker process of Engine M: decides one share of the cubes of one query family.

usage: python3-vt -m mirsmt.worker <spec.json> <out.json>

spec = {mir, src, cap, freelist, maxn, retries, progs: [[action,...],...], steps: [K_t per thread], kind: safe|live|hb|crash,
        switches: 2|3, share: [i, n], cube_timeout_s, first: 0|1|null}
A *plan* is X^a Y^b X^* Y^* (3 switches) or X^a Y^* X^* (2 switches): the lengths a (and b) are the cube; the
starred chunks run their thread until it has finished.  Every cube is one incremental SAT call (z3 QF_FD:
bit-blasting + CDCL with assumptions) over all initial states satisfying INV, all operation arguments and all
behaviours of compare_exchange_weak within the bound; the union of the cubes is the whole family."""
import sys, os, json, time, traceback
import z3
from . import world as Wd, bmc, ts as TS
from .mir import Unsupported


def build_threads(w, progs):
    ths = []
    for i, pr in enumerate(progs):
        acts = [tuple(a) for a in pr]
        io = {a[3]: (a[1] - 2, a[2] - 2) for a in acts if a[0] == "free_given"}
        nown = max([a[3] + 1 for a in acts if a[0] == "free_given"] + [0]) + sum(1 for a in acts if a[0] == "alloc_bytes")
        ths.append(w.thread("T%d" % i, "client::prog_%d" % i, nown=max(nown, 1), init_owned=io))
    return ths


def client_text(progs):
    return "".join(Wd.client_mir("client::prog_%d" % i, [tuple(a) for a in pr]) for i, pr in enumerate(progs))


def reopen_words(M, w, W):
    """the effect of the writable reopen on the file image (memory.rs map_mut_in: zero [stored cursor, cap))"""
    hw = w.hdr // 8
    allocated = z3.Extract(31, 0, W[hw + 1])
    out = []
    for i in range(M.NW):
        if i >= M.NW - 1 or 8 * i + 7 < w.dofs:
            out.append(W[i])
            continue
        bs = []
        for j in range(7, -1, -1):
            b = 8 * i + j
            keep = z3.ULT(z3.BitVecVal(b, 32), allocated) if b >= w.dofs else z3.BoolVal(True)
            bs.append(z3.If(keep, z3.Extract(8 * j + 7, 8 * j, W[i]), z3.BitVecVal(0, 8)))
        out.append(z3.Concat(*bs))
    return out


class Family:
    def __init__(self, spec):
        self.spec = spec
        mir_text = open(spec["mir"]).read()
        self.progs = spec["progs"]
        self.w = Wd.World(mir_text, spec["src"], cap=spec["cap"], freelist=spec["freelist"], max_retries=spec.get("retries", 1),
                          extra_mir=client_text(self.progs))
        self.ths = build_threads(self.w, self.progs)
        self.kind = spec["kind"]
        self.functions = sorted(set(fr[0] for t in self.ths for p in t.by_id.values() if p.frames for fr in p.frames))

    def plans(self):
        steps = self.spec["steps"]
        sw = self.spec.get("switches", 2)
        T = len(self.ths)
        if self.kind == "crash":
            return [("crash", [(0, steps[0]), (1, steps[1])], 1)]
        if T == 1:
            return [("solo", [(0, steps[0])], 0)]
        out = []
        firsts = [self.spec["first"]] if self.spec.get("first") is not None else [0, 1]
        for x in firsts:
            y = 1 - x
            if sw <= 2:
                out.append(("%d%d%d" % (x, y, x), [(x, steps[x]), (y, steps[y]), (x, steps[x])], 1))
            else:
                out.append(("%d%d%d%d" % (x, y, x, y), [(x, steps[x]), (y, steps[y]), (x, steps[x]), (y, steps[y])], 2))
        return out

    def model(self, plan):
        w = self.w
        M = bmc.Model(self.spec["cap"], self.ths, plan, hb=(self.kind == "hb"), dofs=w.dofs)
        M.build()
        ic, inv = w.init_inv(M, self.spec["maxn"], self.spec["freelist"])
        init = ic + w.init_threads(M) + w.init_owned_ok(M, inv)
        for i, t in enumerate(self.ths):
            init.append(t.arg_vars[4] == 0x11 * (i + 1))
        if self.kind == "hb":
            init += M.hb_init()
        return M, init, inv

    def cubes(self, plan, nfree):
        if nfree == 0:
            return [()]
        if nfree == 1:
            return [(a,) for a in range(plan[0][1] + 1)]
        return [(a, b) for a in range(plan[0][1] + 1) for b in range(plan[1][1] + 1)]


def decode_cex(F, M, inv, m, what):
    w = F.w
    ev = lambda e: m.eval(e, model_completion=True)
    cex = {"what": what, "cap": F.spec["cap"], "freelist": F.spec["freelist"], "retries": F.spec.get("retries", 1), "progs": F.progs,
           "plan": M.chunks, "kind": F.kind, "data_offset": w.dofs, "header_offset": w.hdr,
           "words0": [ev(x).as_long() for x in M.W[0][: M.NW - 1]],
           "inv": {"k": ev(inv["k"]).as_long(), "off": [ev(x).as_long() for x in inv["off"]], "size": [ev(x).as_long() for x in inv["size"]],
                   "allocated": ev(inv["allocated"]).as_long(), "min_seg": ev(inv["min_seg"]).as_long(), "discarded": ev(inv["discarded"]).as_long()},
           "args": [[ev(a).as_long() for a in t.arg_vars] for t in F.ths],
           "steps": M.decode(m)}
    cex["schedule"] = [s["thread"] for s in cex["steps"]]
    bad_at = []
    for k in range(M.K + 1):
        for n, e in M.bad(k).items():
            if z3.is_true(ev(e)):
                bad_at.append([k, n])
    cex["bad"] = bad_at[:6]
    own = []
    for ti, t in enumerate(F.ths):
        for j in range(t.nown):
            live, lo, hi, plo, phi = [ev(x) for x in M.own(M.K, ti, j)]
            own.append({"thread": ti, "slot": j, "live": z3.is_true(live), "lo": lo.as_long(), "hi": hi.as_long(), "plo": plo.as_long(), "phi": phi.as_long()})
    cex["own_final"] = own
    return cex


def run(spec):
    t_start = time.time()
    F = Family(spec)
    kind = F.kind
    res = {"family": spec["name"], "kind": kind, "share": spec.get("share"), "cubes": 0, "unsat": 0, "sat": 0, "unknown": 0, "solver_s": 0.0,
           "cex": [], "bound_exceeded": [], "functions": F.functions, "reach": {}, "plans": [], "points": [len(t.points) for t in F.ths],
           "regs": [sum(t.regs.values()) for t in F.ths], "encode_s": 0.0}
    share = spec.get("share") or [0, 1]
    cube_to = spec.get("cube_timeout_s", 120)
    deadline = t_start + spec.get("budget_s", 3000)
    for (pname, plan, nfree) in F.plans():
        t0 = time.time()
        M, init, inv = F.model(plan)
        T = len(F.ths)
        K = M.K
        hard = list(init)
        # starred chunks: the thread runs until it has finished
        k0 = sum(n for (_, n) in plan[:nfree])
        for k in range(k0, K):
            hard.append(M.run[k] == z3.Not(M.finished(k, M.plan[k])))
        # crash: thread 0 dies at the end of its chunk; the file image is reopened
        dead = set()
        if kind == "crash":
            dead.add(0)
        done_end = z3.And([M.finished(K, ti) for ti in range(T) if ti not in dead])
        stuck = []
        for k in range(K):
            ti = M.plan[k]
            if ti in dead:
                continue
            others = [M.finished(k, o) for o in range(T) if o != ti and o not in dead]
            stuck.append(z3.And(M.stutter(k), *others))
        stuck = z3.Or(stuck) if stuck else z3.BoolVal(False)
        viol = {"safe": M.any_bad(), "crash": z3.Or(M.any_bad(), stuck), "live": stuck,
                "hb": (M.H[K]["race"] if kind == "hb" else z3.BoolVal(False))}[kind]
        not_done = z3.Not(done_end)
        s = z3.SolverFor("QF_FD")
        s.set("timeout", int(cube_to * 1000))
        if kind == "crash":
            # the reopen transformation sits between the two chunks: re-express thread 1's first memory
            kc = plan[0][1]
            Wr = reopen_words(M, F.w, M.W[kc])
            # steps >= kc read the reopened image `fresh` instead of W[kc]: the step constraints are re-instantiated
            fresh = [z3.BitVec("Wre_%d" % i, 64) for i in range(M.NW)]
            pairs = list(zip(M.W[kc], fresh))
            M.cons = []
            for k in range(K):
                ti = M.plan[k]
                rel = z3.substitute(M.tmpl[ti]["rel"], *M._pairs(k, ti))
                if k == kc:
                    rel = z3.substitute(rel, *pairs)
                M.cons.append(rel)
                if k > 0 and M.chunk_of[k] == M.chunk_of[k - 1]:
                    M.cons.append(z3.Implies(z3.Not(M.run[k - 1]), z3.Not(M.run[k])))
            for i in range(M.NW):
                M.cons.append(fresh[i] == Wr[i])
            M.reopened = fresh
        s.add(M.cons)
        s.add(hard)
        flag_v, flag_n = z3.Bool("q_violation"), z3.Bool("q_notdone")
        s.add(flag_v == viol)
        s.add(flag_n == not_done)
        flag_any = z3.Bool("q_any")
        s.add(flag_any == z3.Or(flag_v, flag_n))
        res["encode_s"] += time.time() - t0
        res["plans"].append({"plan": pname, "chunks": plan, "steps": K})
        cubes = F.cubes(plan, nfree)
        mine = [c for i, c in enumerate(cubes) if i % share[1] == share[0]]
        for cube in mine:
            if time.time() > deadline:
                res["unknown"] += 1
                res["bound_exceeded"].append({"plan": pname, "cube": list(cube), "why": "worker budget exhausted"})
                continue
            ass = []
            k = 0
            for (ti, n), L in zip(plan[:nfree], cube):
                for j in range(n):
                    ass.append(M.run[k] if j < L else z3.Not(M.run[k]))
                    k += 1
            t1 = time.time()
            r = s.check(*(ass + [flag_any]))
            dt = time.time() - t1
            res["solver_s"] += dt
            res["cubes"] += 1
            if r == z3.unsat:
                res["unsat"] += 1
                continue
            if r != z3.sat:
                res["unknown"] += 1
                res["bound_exceeded"].append({"plan": pname, "cube": list(cube), "why": "solver: " + str(r)})
                continue
            # which disjunct? prefer a real violation
            r2 = s.check(*(ass + [flag_v]))
            res["solver_s"] += time.time() - t1 - dt
            if r2 == z3.sat:
                res["sat"] += 1
                if len(res["cex"]) < 3:
                    cex = decode_cex(F, M, inv, s.model(), kind)
                    cex["plan_name"], cex["cube"] = pname, list(cube)
                    if kind in ("live", "crash"):
                        m = s.model()
                        for k in range(K):
                            ti = M.plan[k]
                            if ti in dead:
                                continue
                            if z3.is_true(m.eval(M.stutter(k), model_completion=True)):
                                a = m.eval(M.at_step(k, M.tmpl[ti]["spin_addr"]), model_completion=True).as_long()
                                wv = m.eval(M.at_step(k, M.tmpl[ti]["spin_word"]), model_completion=True).as_long()
                                p = F.ths[ti].by_id.get(m.eval(M.pc[k][ti], model_completion=True).as_long())
                                cex["spin"] = {"k": k, "thread": ti, "addr": a, "word": wv, "point": p.desc if p else "?"}
                                break
                    if kind == "hb":
                        cex["witness_byte"] = s.model().eval(M.wit, model_completion=True).as_long()
                    if kind == "crash":
                        cex["reopened_words"] = [s.model().eval(x, model_completion=True).as_long() for x in M.reopened[: M.NW - 1]]
                    res["cex"].append(cex)
            elif r2 == z3.unsat:
                res["unsat"] += 1
                res["bound_exceeded"].append({"plan": pname, "cube": list(cube), "why": "a thread has not finished within its step bound"})
            else:
                res["unknown"] += 1
        # vacuity witnesses for this plan (first worker only): the programs can complete, and interference is reachable
        if share[0] == 0:
            s.set("timeout", int(4 * cube_to * 1000))
            t1 = time.time()
            r = s.check(z3.Not(flag_v), z3.Not(flag_n))
            res["reach"][pname + ":all_finish"] = str(r)
            if len(F.ths) > 1 and kind != "crash":
                casfail = []
                for k in range(K):
                    t = F.ths[M.plan[k]]
                    pts = [p.id for p in t.by_id.values() if p.op["kind"] in ("compare_exchange", "compare_exchange_weak")]
                    if pts:
                        casfail.append(z3.And(M.run[k], z3.Or([M.pc[k][M.plan[k]] == p for p in pts]), z3.Not(M.res_ok[k]), z3.Not(M.spur[k])))
                cf = z3.Bool("q_casfail")
                s.add(cf == z3.Or(casfail))
                r = s.check(z3.Not(flag_n), cf)
                res["reach"][pname + ":cas_lost_to_other_thread"] = str(r)
            res["solver_s"] += time.time() - t1
    res["wall_s"] = time.time() - t_start
    return res


def main():
    spec = json.load(open(sys.argv[1]))
    try:
        res = run(spec)
    except Unsupported as e:
        res = {"family": spec.get("name"), "error": "unsupported MIR construct: " + str(e)}
    except Exception as e:
        res = {"family": spec.get("name"), "error": "worker exception: " + repr(e), "trace": traceback.format_exc()[-1500:]}
    with open(sys.argv[2], "w") as f:
        json.dump(res, f, indent=1, default=str)


if __name__ == "__main__":
    main()
