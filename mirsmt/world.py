"""The verification 'world': the immutable Arena/Memory objects the encoded functions see, the
synthetic client programs (written as MIR text so that they run on the same interpreter), and
the initial-state predicate INV over the word array."""
import re, os, z3
from . import sym, ts as TS, bmc
from .sym import Tup, Enum, MemRef, ObjRef, Opaque, bv
from .mir import Unsupported


def client_mir(name, actions):
    """MIR text of a synthetic client thread (it runs on the same interpreter as the crate's MIR). Actions:
       ('alloc_bytes', k)            m := alloc_bytes_in(_k); on success own(m), fill(m) - the handle's slot is the next free one
       ('alloc_typed', 'u64')        m := alloc_in::<u64>()            ('alloc_aligned', k, 'u64')  m := alloc_aligned_bytes_in::<u64>(_k)
       ('free_slot', j) / ('free_last',)   check(m_j); release(j); dealloc(m_j.memory_offset, m_j.memory_size)   (what Drop does)
       ('forget_slot', j)            release(j) without dealloc (a detached handle / hand-over to another thread)
       ('check_slot', j)             check(m_j)
       ('free_given', ko, ks, j)     release(j); dealloc(_ko, _ks)  - a range the thread holds from the start (slot j, j < number of given slots)
       ('touch_given', ko, ks)       write the pattern into the given range [_ko, _ko+_ks)
       ('drop_arena',)               drop this thread's arena value (Drop for sync::Arena: refs.fetch_sub, unmount by the last one)
       ('clone_drop',)               clone the arena and drop the clone
       ('discard',)                  discard_freelist_in()
    Arguments: _1 = &Arena, _2.._5 = u32 parameters, _6 = u8 pattern. Slots: given ranges first, then allocations in order."""
    L = []
    L.append("fn %s(_1: &sync::Arena, _2: u32, _3: u32, _4: u32, _5: u32, _6: u8) -> () {" % name)
    L.append("    let mut _0: ();")
    bbs = []
    nl = [10]
    ngiven = max([a[3] + 1 for a in actions if a[0] == "free_given"] + [0])
    next_slot = [ngiven]
    metas = {}
    last = [None]

    def newl():
        nl[0] += 1
        return nl[0]

    cur = []

    def close(term):
        bbs.append((list(cur), term))
        cur.clear()

    def free_slot(j):
        u1, u2, u3, o, s_ = [newl() for _ in range(5)]
        b = len(bbs)
        meta = metas[j]
        # the slot may be empty when the allocation failed: guarded by the allocation's own control flow (jump to END)
        close("_%d = client::check(copy _%d, copy _6) -> [return: bb%d, unwind continue];" % (u1, meta, b + 1))
        close("_%d = client::release(const %d_u8) -> [return: bb%d, unwind continue];" % (u2, j, b + 2))
        cur.append("_%d = copy (_%d.1: u32);" % (o, meta))
        cur.append("_%d = copy (_%d.2: u32);" % (s_, meta))
        close("_%d = <sync::Arena as allocator::Allocator>::dealloc(copy _1, copy _%d, copy _%d) -> [return: bb%d, unwind continue];" % (u3, o, s_, b + 3))

    for a in actions:
        if a[0] in ("alloc_bytes", "alloc_typed", "alloc_aligned"):
            r, d1, opt, d2, meta, u1, u2 = [newl() for _ in range(7)]
            b = len(bbs)
            slot = next_slot[0]
            next_slot[0] += 1
            if a[0] == "alloc_bytes":
                close("_%d = sync::Arena::alloc_bytes_in(copy _1, copy _%d) -> [return: bb%d, unwind continue];" % (r, a[1], b + 1))
            elif a[0] == "alloc_typed":
                close("_%d = sync::Arena::alloc_in::<%s>(copy _1) -> [return: bb%d, unwind continue];" % (r, a[1], b + 1))
            else:
                close("_%d = sync::Arena::alloc_aligned_bytes_in::<%s>(copy _1, copy _%d) -> [return: bb%d, unwind continue];" % (r, a[2], a[1], b + 1))
            cur.append("_%d = discriminant(_%d);" % (d1, r))
            close("switchInt(move _%d) -> [0: bb%d, otherwise: bbEND];" % (d1, b + 2))
            cur.append("_%d = copy ((_%d as Ok).0: Option<Meta>);" % (opt, r))
            cur.append("_%d = discriminant(_%d);" % (d2, opt))
            close("switchInt(move _%d) -> [1: bb%d, otherwise: bbEND];" % (d2, b + 3))
            cur.append("_%d = copy ((_%d as Some).0: Meta);" % (meta, opt))
            if len(a) > 2 and a[2] == "handover":
                # the block is handed to another thread (which holds it as a given range): not tracked as ours
                close("_%d = client::fill(copy _%d, copy _6) -> [return: bb%d, unwind continue];" % (u2, meta, b + 4))
            else:
                close("_%d = client::own(copy _%d, const %d_u8) -> [return: bb%d, unwind continue];" % (u1, meta, slot, b + 4))
                close("_%d = client::fill(copy _%d, copy _6) -> [return: bb%d, unwind continue];" % (u2, meta, b + 5))
            metas[slot] = meta
            last[0] = slot
        elif a[0] == "free_last":
            free_slot(last[0])
        elif a[0] == "free_slot":
            free_slot(ngiven + a[1])
        elif a[0] == "forget_slot":
            u2 = newl()
            b = len(bbs)
            close("_%d = client::release(const %d_u8) -> [return: bb%d, unwind continue];" % (u2, ngiven + a[1], b + 1))
        elif a[0] == "check_slot" or a[0] == "check_last":
            u1 = newl()
            b = len(bbs)
            j = last[0] if a[0] == "check_last" else ngiven + a[1]
            close("_%d = client::check(copy _%d, copy _6) -> [return: bb%d, unwind continue];" % (u1, metas[j], b + 1))
        elif a[0] == "free_given":
            u2, u3 = newl(), newl()
            b = len(bbs)
            close("_%d = client::release(const %d_u8) -> [return: bb%d, unwind continue];" % (u2, a[3], b + 1))
            close("_%d = <sync::Arena as allocator::Allocator>::dealloc(copy _1, copy _%d, copy _%d) -> [return: bb%d, unwind continue];" % (u3, a[1], a[2], b + 2))
        elif a[0] == "touch_given":
            # the holder of a given range writes into it (so that it is the range's last writer before releasing it)
            u1 = newl()
            b = len(bbs)
            close("_%d = client::fill_range(copy _%d, copy _%d, copy _6) -> [return: bb%d, unwind continue];" % (u1, a[1], a[2], b + 1))
        elif a[0] == "drop_arena":
            # the thread drops its arena value (every concurrent thread holds one; refs starts at their number)
            u1 = newl()
            b = len(bbs)
            close("_%d = <sync::Arena as Drop>::drop(copy _1) -> [return: bb%d, unwind continue];" % (u1, b + 1))
        elif a[0] == "clone_drop":
            c1, r1, u1 = newl(), newl(), newl()
            b = len(bbs)
            close("_%d = <sync::Arena as Clone>::clone(copy _1) -> [return: bb%d, unwind continue];" % (c1, b + 1))
            cur.append("_%d = &mut _%d;" % (r1, c1))
            close("_%d = <sync::Arena as Drop>::drop(copy _%d) -> [return: bb%d, unwind continue];" % (u1, r1, b + 2))
        elif a[0] == "discard":
            u1 = newl()
            b = len(bbs)
            close("_%d = sync::Arena::discard_freelist_in(copy _1) -> [return: bb%d, unwind continue];" % (u1, b + 1))
        elif a[0] == "keep":
            pass
        else:
            raise ValueError(a)
    close("return;")
    end = len(bbs) - 1
    for i, (stmts, term) in enumerate(bbs):
        L.append("    bb%d: {" % i)
        for s_ in stmts:
            L.append("        " + s_)
        L.append("        " + term.replace("bbEND", "bb%d" % end))
        L.append("    }")
    L.append("}")
    return "\n".join(L) + "\n"


def nslots(actions):
    return max([a[3] + 1 for a in actions if a[0] == "free_given"] + [0]) + sum(1 for a in actions if a[0] in ("alloc_bytes", "alloc_typed", "alloc_aligned"))


class World:
    def __init__(self, mir_text, src_dir, cap=128, freelist="Optimistic", max_retries=1, reserved=0, extra_mir=""):
        self.cap = cap
        self.reserved = reserved
        self.hdr = ((reserved + 7) & ~7) + 8
        self.dofs = self.hdr + 24
        self.freelist = freelist
        self.prog = sym.Program(mir_text, src_dir, extra_fns=extra_mir)
        fl_idx = self.prog.enums["Freelist"].index(freelist)
        anames = self.prog.structs[("sync", "Arena")]
        vals = {
            "ptr": MemRef(bv(0, 64)), "data_offset": bv(self.dofs, 32), "reserved": bv(reserved, 64),
            "flag": Opaque("flags"), "max_retries": bv(max_retries, 8), "inner": ObjRef("memory"),
            "unify": z3.BoolVal(True), "magic_version": bv(0, 16), "version": bv(0, 16), "ro": z3.BoolVal(False),
            "cap": bv(cap, 32), "freelist": Enum("Freelist", fl_idx, {fl_idx: []}), "page_size": bv(4096, 32),
        }
        missing = [n for n in anames if n not in vals]
        if missing:
            raise Unsupported("sync::Arena has fields the world does not know: %s" % missing)
        arena = Tup([vals[n] for n in anames])
        mnames = self.prog.structs[("memory", "Memory")]
        mvals = {
            "refs": Opaque("refs"), "reserved": bv(reserved, 64), "cap": bv(cap, 32), "data_offset": bv(self.dofs, 64),
            "flag": Opaque("flags"), "header_ptr": Enum("Either", 0, {0: [bv(self.hdr, 32)]}), "ptr": MemRef(bv(0, 64)),
            "backend": Opaque("backend"), "unify": z3.BoolVal(True), "magic_version": bv(0, 16), "version": bv(0, 16),
            "freelist": Enum("Freelist", fl_idx, {fl_idx: []}), "read_only": z3.BoolVal(False), "max_retries": bv(max_retries, 8),
            "header_offset": bv(self.hdr, 64), "lock_meta": z3.BoolVal(False),
        }
        memory = Tup([mvals[n] for n in mnames if n in mvals])
        if len(memory.f) != len([n for n in mnames]):
            # memmap-only fields are absent from the alloc build's MIR indices; keep declared-order prefix
            memory = Tup([mvals.get(n, Opaque(n)) for n in mnames if n not in ("header_offset", "lock_meta")])
        self.objects = {"arena": arena, "memory": memory}
        # in-memory layout of the repr(C) Header and the transparent SegmentNode (from the source declarations)
        self.mem_layouts = self._header_layout(src_dir)
        self.cfg = {"mir_text": mir_text, "mem_layouts": self.mem_layouts, "layouts": {}, "summaries": {}}
        self.ex = sym.Executor(self.prog, self.objects, self.cfg)
        # &memory.refs is a word outside the arena bytes
        self.refs_index = mnames.index("refs")
        orig_ref = self.ex.ref_place

        def ref_place(stack, frame, place, _orig=orig_ref, self=self):
            v = _orig(stack, frame, place)
            if isinstance(v, ObjRef) and v.name == "memory" and v.proj and v.proj[0][0] == "field" and v.proj[0][1] == self.refs_index and len(v.proj) == 1:
                return MemRef(bv(self.cap, 64))
            return v

        self.ex.ref_place = ref_place

    def _header_layout(self, src_dir):
        s = open(os.path.join(src_dir, "sync.rs")).read()
        m = re.search(r"#\[repr\(C, align\(8\)\)\]\s*pub struct Header \{(.*?)\n  \}", s, re.S)
        if not m:
            raise Unsupported("sync::sealed::Header is no longer #[repr(C, align(8))]")
        fields = re.findall(r"pub\(super\)\s+([a-z_]+)\s*:\s*([A-Za-z0-9_<>]+)", m.group(1))
        size = {"SegmentNode": 8, "AtomicU64": 8, "AtomicU32": 4}
        mirty = {"SegmentNode": "sync::SegmentNode", "AtomicU64": "Atomic<u64>", "AtomicU32": "Atomic<u32>"}
        lay, off = {}, 0
        for i, (n, t) in enumerate(fields):
            if t not in size:
                raise Unsupported("Header field type " + t)
            off = (off + size[t] - 1) // size[t] * size[t]
            lay[(i, mirty[t])] = off
            off += size[t]
        if "size_and_next: AtomicU64" not in s:
            raise Unsupported("SegmentNode layout changed")
        lay[(0, "Atomic<u64>")] = 0
        self.header_fields = {n: lay[(i, mirty[t])] for i, (n, t) in enumerate(fields)}
        return lay

    def thread(self, tname, fn_name, arg_sorts=(32, 32, 32, 32, 8), nown=1, init_owned=None):
        """init_owned: {slot: (index of the u32 argument holding the offset, index of the size argument)}"""
        args = [ObjRef("arena")] + [z3.BitVec("%s!arg%d" % (tname, i), w) for i, w in enumerate(arg_sorts)]
        io = {j: (args[1 + a], args[1 + b]) for j, (a, b) in (init_owned or {}).items()}
        t = TS.ThreadTS(tname, self.ex, fn_name, args, nown=nown, init_owned=io)
        for a in args[1:]:
            t.tvars[str(a)] = a
            t.const_names.add(str(a))
        t.arg_vars = args[1:]
        t.explore()
        return t

    # ------------------------------------------------------------ initial states
    def init_refs(self, M, n):
        """the reference counter (the extra word after the arena bytes) starts at the number of live arena values"""
        return [M.W[0][M.NW - 1] == bv(n, 64)]

    def init_fresh(self, M, min_seg=20):
        """the image Memory::alloc / map_mut(create) writes (unified layout): zeroes, the 8 identification bytes, the header"""
        c = []
        W = M.W[0]
        hw = self.hdr // 8
        fl_idx = self.prog.enums["Freelist"].index(self.freelist)
        for i in range(M.NW - 1):
            if i == hw:
                v = 0xFFFFFFFFFFFFFFFF
            elif i == hw + 1:
                v = (min_seg << 32) | self.dofs
            else:
                v = None
            if v is not None:
                c.append(W[i] == bv(v, 64))
            elif i == hw + 2:
                c.append(z3.Extract(31, 0, W[i]) == 0)  # discarded = 0; the upper half is the header's padding
            elif 8 * i >= self.dofs:
                c.append(W[i] == bv(0, 64))
            # the words holding reserved bytes / identification bytes / header padding are never read by the encoded code
        return c

    def init_inv(self, M, maxn, order):
        """INV(W[0]): arbitrary cursor, <= maxn well-formed segments, arbitrary data bytes.
        Returns (constraints, dict of the symbolic state variables for decoding)."""
        W = M.W[0]
        c = []
        hw = self.hdr // 8
        k = z3.BitVec("inv_k", 8)
        off = [z3.BitVec("inv_off%d" % i, 32) for i in range(maxn)]
        size = [z3.BitVec("inv_size%d" % i, 32) for i in range(maxn)]
        allocated = z3.BitVec("inv_allocated", 32)
        min_seg = z3.BitVec("inv_minseg", 32)
        discarded = z3.BitVec("inv_discarded", 32)
        c.append(z3.ULE(k, maxn))
        if order == "None":
            c.append(k == 0)
        c.append(z3.And(z3.UGE(allocated, self.dofs), z3.ULE(allocated, self.cap)))
        c.append(z3.ULE(min_seg, 2 * self.cap))
        c.append(z3.ULE(discarded, 1 << 24))
        MAXV = bv(0xFFFFFFFF, 32)
        head = z3.If(k == 0, MAXV, off[0]) if maxn > 0 else MAXV
        c.append(W[hw] == z3.Concat(MAXV, head))
        c.append(W[hw + 1] == z3.Concat(min_seg, allocated))
        c.append(z3.Extract(31, 0, W[hw + 2]) == discarded)
        for i in range(maxn):
            act = z3.UGT(k, i)
            nxt = z3.If(z3.UGT(k, i + 1), off[i + 1], MAXV) if i + 1 < maxn else MAXV
            c.append(z3.Implies(act, z3.And(
                z3.Extract(2, 0, off[i]) == 0, z3.UGE(off[i], self.dofs), z3.UGE(size[i], 1), z3.ULE(size[i], self.cap),
                z3.ULE(off[i], self.cap), z3.ULE(off[i] + 8 + size[i], allocated),
                M.read64(W, z3.ZeroExt(32, off[i])) == z3.Concat(size[i], nxt))))
            for j in range(i):
                c.append(z3.Implies(act, z3.Or(z3.ULE(off[i] + 8 + size[i], off[j]), z3.ULE(off[j] + 8 + size[j], off[i]))))
            if i > 0:
                if order == "Optimistic":
                    c.append(z3.Implies(act, z3.UGE(size[i - 1], size[i])))
                elif order == "Pessimistic":
                    c.append(z3.Implies(act, z3.ULE(size[i - 1], size[i])))
        inv = {"k": k, "off": off, "size": size, "allocated": allocated, "min_seg": min_seg, "discarded": discarded}
        return c, inv

    def init_threads(self, M):
        """pcs at start, monitor flags cleared, bookkeeping registers at their initial values"""
        c = []
        for ti, t in enumerate(M.threads):
            c.append(M.pc[0][ti] == t.points[("start",)].id)
            F = M.F[0][ti]
            c += [z3.Not(F["corrupt"]), z3.Not(F["oob"]), F["spur"] == 0, F["unmounts"] == 0]
            for j in range(t.nown):
                live, lo, hi, plo, phi = M.own(0, ti, j)
                if j in t.init_owned:
                    o, sz = t.init_owned[j]
                    c += [live, lo == o, hi == o + sz, plo == o, phi == o + sz]
                else:
                    c += [z3.Not(live), lo == 0, hi == 0, plo == 0, phi == 0]
        return c

    def init_owned_ok(self, M, inv):
        """initially held ranges: inside [data_offset, allocated), disjoint from every free segment and from each other"""
        c = []
        rngs = []
        for ti, t in enumerate(M.threads):
            for j, (o, sz) in t.init_owned.items():
                rngs.append((o, sz))
                c += [z3.UGE(o, self.dofs), z3.UGE(sz, 1), z3.ULE(sz, self.cap), z3.ULE(o, self.cap), z3.ULE(o + sz, inv["allocated"])]
                for i in range(len(inv["off"])):
                    act = z3.UGT(inv["k"], i)
                    c.append(z3.Implies(act, z3.Or(z3.ULE(o + sz, inv["off"][i]), z3.ULE(inv["off"][i] + 8 + inv["size"][i], o))))
        for a in range(len(rngs)):
            for b in range(a + 1, len(rngs)):
                (o1, s1), (o2, s2) = rngs[a], rngs[b]
                c.append(z3.Or(z3.ULE(o1 + s1, o2), z3.ULE(o2 + s2, o1)))
        return c
