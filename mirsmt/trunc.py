"""Effects mode, truncate obligations (C18 on the file-backed, anonymous-map and Vec backends of the memmap
build): one symbolic pass over the MIR of `Memory::truncate` (memmap variant, all four backend arms) and of
`unsync::Arena::truncate`, `self` symbolic (fields typed from the struct declarations, the backend an enum with
symbolic discriminant and lazily synthesised payload), callees outside the crate opaque with recorded effects.
z3 decides per path and backend:

  T1  MmapMut arm, accepting path: the old map object is released before the file is touched; every `set_len(n)`
      has n = opts.offset + size and is reached only under file_len < n (the file is never cut, so no byte below
      allocated can be lost); the new mapping is requested with capacity `size as u32`; no store; afterwards
      self.ptr is the new mapping's pointer, the backend holds the new map object, self.cap = size as u32 and no
      other field of the Memory changed.
  T2  AnonymousMmap arm, accepting path: the only store is copy_from_slice(new[..allocated], old[..allocated]);
      afterwards self.ptr is the new map's pointer, the backend holds the new map, self.cap = size as u32, other
      fields unchanged.
  T3  Mmap (read-only) arm: returns Ok without any effect and without changing a field (capacity included).
  T4  Vec arm (memmap build): the only store is copy_nonoverlapping(old, new, allocated) into a new zeroed
      allocation of `size` bytes; self.ptr = new pointer, self.cap = size as u32, other fields unchanged.
  T5  unsync::Arena::truncate: a read-only arena returns Err with no effect at all; otherwise Memory::truncate is
      called with (allocated(), max(size, allocated())) and on success the arena's ptr and cap are refreshed from
      the Memory; on failure of Memory::truncate the arena's fields are not changed.

usage: python3-vt -m mirsmt.trunc <mir_memmap.txt> <src dir> <out.json>"""
import sys, re, json, time
import z3
from . import mir, sym
from .sym import Tup, Enum, LocalRef, bv, Frame
from .mir import Unsupported
from .effects import Sym, feasible
from .reopen import RExec, Lazy, explore, prove, eff_by_result, is_err_of, z64, same, struct_field_types, FILE_MUTATORS

KEEP = ("refs", "reserved", "data_offset", "flag", "header_ptr", "unify", "magic_version", "version", "freelist", "read_only", "max_retries", "header_offset", "lock_meta")


def unchanged(ex, guard, extra, before, after, names):
    bad = []
    for n in names:
        b, a = before.get(n), after.get(n)
        if a is b:
            continue
        if isinstance(a, (z3.ExprRef, Enum)) and isinstance(b, (z3.ExprRef, Enum)):
            ok, _ = prove(ex, guard, extra, same(a, b))
            if ok:
                continue
        bad.append(n)
    return bad


def check_memory_truncate(mir_text, src):
    types = struct_field_types(src, "memory.rs", "Memory")

    def init(ex, prog, fr):
        names = prog.structs.get(("memory", "Memory"))
        be = prog.enums.get("MemoryBackend")
        if not names or not be:
            raise Unsupported("Memory / MemoryBackend declarations not found")
        d = z3.BitVec("backend_discr", 64)
        ex.side.append(z3.ULT(d, len(be)))
        vals = []
        for n in names:
            if n == "backend":
                vals.append(Enum("MemoryBackend", d, {i: Lazy("backend.%s" % v) for i, v in enumerate(be)}))
            else:
                vals.append(ex.synth(types.get(n, "?"), "self." + n))
        fr.locals[900] = Tup(vals)
        fr.locals[1] = LocalRef(("E",), 900, [])
        allocated, size = z3.BitVec("allocated", 64), z3.BitVec("size", 64)
        # the caller's contract (T5): allocated <= size <= u32::MAX
        ex.side.append(z3.ULE(allocated, size))
        ex.side.append(z3.ULE(size, bv(0xFFFFFFFF, 64)))
        fr.locals[2], fr.locals[3] = allocated, size
        return {"be": be, "d": d, "names": names, "before": dict(zip(names, vals)), "allocated": allocated, "size": size}

    prog, ex, ends, ctx, fname = explore(mir_text, src, r"^memory::<impl at [^>]*>::truncate$", init)
    be, d, names, before = ctx["be"], ctx["d"], ctx["names"], ctx["before"]
    allocated, size = ctx["allocated"], ctx["size"]
    viol = {"T1": [], "T2": [], "T3": [], "T4": []}
    seen = {"T1": 0, "T2": 0, "T3": 0, "T4": 0}
    ids = {"MmapMut": "T1", "AnonymousMmap": "T2", "Mmap": "T3", "Vec": "T4"}
    n_paths = 0
    for e in ends:
        if e.kind != "done":
            continue
        n_paths += 1
        effs = e.stack[0].locals.get("EFF", ())
        fnames = [x["func"] for x in effs]
        is_err = is_err_of(e.info)
        after_t = e.stack[0].locals[900]
        after = dict(zip(names, after_t.f))
        for vi, vn in enumerate(be):
            tid = ids.get(vn)
            if tid is None:
                continue
            acc = [d == vi, z3.Not(is_err)]
            if feasible(ex, e.guard, acc) != z3.sat:
                # failing path of this backend: the file must still never be cut
                if vn == "MmapMut" and feasible(ex, e.guard, [d == vi]) == z3.sat:
                    for x in effs:
                        if "set_len" in x["func"]:
                            lens = [y for y in effs if "Metadata::len" in y["func"]]
                            ok = bool(lens) and prove(ex, e.guard, [d == vi], z3.ULT(lens[0]["result"], z64(x["args"][1])))[0]
                            if not ok:
                                viol["T1"].append({"why": "set_len can cut the file on a failing path"})
                continue
            seen[tid] += 1
            V = viol[tid]
            writes = [x for x in effs if x["kind"] == "write"]
            for x in effs:
                if any(m in x["func"] for m in FILE_MUTATORS):
                    V.append({"call": x["func"], "why": "file-level mutator in truncate"})
            bad_keep = unchanged(ex, e.guard, acc, before, after, KEEP)
            if bad_keep:
                V.append({"fields": bad_keep, "why": "truncate changed a field of the Memory other than ptr / cap / the backend's map object"})
            if tid == "T3":
                if effs or after.get("cap") is not before.get("cap") or after.get("ptr") is not before.get("ptr"):
                    V.append({"calls": fnames[:4], "why": "truncate of the read-only backend has an effect"})
                continue
            okcap, _ = prove(ex, e.guard, acc, same(after.get("cap"), z3.Extract(31, 0, size)))
            if not okcap:
                V.append({"field": "cap", "have": repr(after.get("cap"))[:80], "why": "capacity after truncate is not the requested size"})
            payload = after["backend"].variants.get(vi) if isinstance(after["backend"], Enum) else None
            if tid == "T1":
                if writes:
                    V.append({"write": writes[0]["func"], "why": "store during truncate of the file-backed arena"})
                rel = [i for i, n in enumerate(fnames) if "Box::" in n and "from_raw" in n]
                maps = [i for i, n in enumerate(fnames) if n.startswith("MmapOptions::map_mut")]
                lens = [x for x in effs if "Metadata::len" in x["func"]]
                if not rel or not maps or rel[0] > maps[0]:
                    V.append({"why": "the old mapping is not released before the new one is made"})
                off = None
                for x in effs:
                    if "set_len" in x["func"]:
                        n_ = z64(x["args"][1])
                        ok1 = bool(lens) and prove(ex, e.guard, acc, z3.ULT(lens[0]["result"], n_))[0]
                        if not ok1:
                            V.append({"why": "set_len reachable with a length that is not larger than the current file size (the file can be cut)"})
                        ok2, _ = prove(ex, e.guard, acc, z3.UGE(n_, size))
                        if not ok2:
                            V.append({"why": "the file is grown to less than the requested size"})
                wc = [x for x in effs if x["func"].endswith("with_capacity") and len(x["args"]) == 2]
                if not wc or not prove(ex, e.guard, acc, same(wc[-1]["args"][1], z3.Extract(31, 0, size)))[0]:
                    V.append({"why": "the new mapping is not requested with capacity = size"})
                if maps:
                    okv = effs[maps[-1]]["result"].variants[0][0]
                    newptr = [x for x in effs if x["func"].endswith("::as_mut_ptr")]
                    into = [x for x in effs if "into_raw" in x["func"]]
                    boxed = eff_by_result(effs, into[-1]["args"][0]) if into else None
                    if not newptr or after.get("ptr") is not newptr[-1]["result"]:
                        V.append({"field": "ptr", "why": "self.ptr is not the new mapping's pointer"})
                    if not (boxed is not None and boxed["args"] and boxed["args"][0] is okv and isinstance(payload, Lazy) and any(v is into[-1]["result"] for v in payload.values())):
                        V.append({"field": "backend.buf", "why": "the backend does not hold the new map object"})
            elif tid == "T2":
                cps = [w for w in writes if "copy_from_slice" in w["func"]]
                if len(writes) != 1 or len(cps) != 1:
                    V.append({"writes": [w["func"] for w in writes], "why": "stores other than one copy_from_slice(new[..allocated], old[..allocated])"})
                else:
                    okr = True
                    for a_ in cps[0]["args"][:2]:
                        src_ = eff_by_result(effs, a_)
                        rng = src_["args"][1] if src_ is not None and len(src_["args"]) > 1 else None
                        hi = rng.f[0] if isinstance(rng, Tup) and len(rng.f) == 1 else None
                        if hi is None or not prove(ex, e.guard, acc, z64(hi) == allocated)[0]:
                            okr = False
                    if not okr:
                        V.append({"why": "the copy into the new anonymous map does not cover exactly [0, allocated)"})
                newptr = [x for x in effs if x["func"].endswith("::as_mut_ptr")]
                if not newptr or after.get("ptr") is not newptr[-1]["result"]:
                    V.append({"field": "ptr", "why": "self.ptr is not the new map's pointer"})
                wc = [x for x in effs if x["func"].endswith("with_capacity") and len(x["args"]) == 2]
                if not wc or not prove(ex, e.guard, acc, same(wc[-1]["args"][1], z3.Extract(31, 0, size)))[0]:
                    V.append({"why": "the new anonymous map is not requested with capacity = size"})
            elif tid == "T4":
                cps = [w for w in writes if "copy_nonoverlapping" in w["func"]]
                if len(writes) != 1 or len(cps) != 1 or not prove(ex, e.guard, acc, z64(cps[0]["args"][2]) == allocated)[0]:
                    V.append({"writes": [w["func"] for w in writes], "why": "stores other than one copy_nonoverlapping(old, new, allocated)"})
                elif after.get("ptr") is not cps[0]["args"][1]:
                    V.append({"field": "ptr", "why": "self.ptr is not the destination of the copy"})
                az = [x for x in effs if "alloc_zeroed" in x["func"]]
                lay = eff_by_result(effs, az[-1]["args"][0]) if az else None
                if lay is None or not prove(ex, e.guard, acc, z64(lay["args"][0]) == size)[0]:
                    V.append({"why": "the new buffer is not a zeroed allocation of `size` bytes"})
    text = {
        "T1": "Memory::truncate, file-backed arm: old map released first, file only grown (to >= size), new mapping of capacity size, no store, ptr/cap/map object refreshed, nothing else changed",
        "T2": "Memory::truncate, anonymous-map arm: only store is copy_from_slice of [0, allocated) into a new map of capacity size; ptr/cap refreshed, nothing else changed",
        "T3": "Memory::truncate, read-only file arm: Ok without any effect, no field changed",
        "T4": "Memory::truncate, Vec arm (memmap build): only store is copy_nonoverlapping(old, new, allocated) into a zeroed allocation of size bytes; ptr/cap refreshed, nothing else changed",
    }
    return [dict(function=fname, paths=n_paths, ok_paths=seen[t], id=t, text=text[t], holds=not viol[t], witnesses=viol[t][:4], vacuous=(seen[t] == 0)) for t in ("T1", "T2", "T3", "T4")]


class WExec(RExec):
    """the wrapper's callee Memory::truncate is decided by T1-T4: opaque here"""

    def call(self, stk, fr, t, cnd):
        func = t.a["func"]
        if "Memory" in func and sym.strip_generics(func).split("::")[-1] == "truncate" and t.a["target"] is not None:
            args = [self.operand(stk, fr, a) for a in t.a["args"]]
            v = self.synth("Result<(), std::io::Error>", "mem_truncate")
            self.add_effect(stk, {"kind": "call", "func": "Memory::truncate", "result": v, "args": args})
            self.write_place(stk, fr, t.a["dest"], v)
            fr.bb = t.a["target"]
            return None
        return RExec.call(self, stk, fr, t, cnd)


def check_arena_truncate(mir_text, src):
    types = struct_field_types(src, "unsync.rs", "Arena")
    prog = sym.Program(mir_text, src)
    cfg = {"mir_text": mir_text, "mem_layouts": {}, "layouts": {}, "summaries": {}}
    ex = WExec(prog, cfg)
    names_fn = [n for n in prog.raw if re.search(r"^unsync::<impl at [^>]*>::truncate$", n)]
    if len(names_fn) != 1:
        raise Unsupported("unsync::Arena::truncate not found / ambiguous: %s" % names_fn)
    fn = prog.fn(names_fn[0])
    fr = Frame(fn, ("E",), {}, gen=[])
    names = prog.structs.get(("unsync", "Arena"))
    vals = [ex.synth(types.get(n, "?"), "arena." + n) for n in names]
    before = dict(zip(names, vals))
    fr.locals[900] = Tup(vals)
    fr.locals[1] = LocalRef(("E",), 900, [])
    size = z3.BitVec("size", 64)
    fr.locals[2] = size
    ends = ex.run([fr], [])
    viol = []
    n_paths = n_ro = n_ok = n_fail = 0
    ro = before["ro"]
    for e in ends:
        if e.kind != "done":
            continue
        n_paths += 1
        effs = e.stack[0].locals.get("EFF", ())
        is_err = is_err_of(e.info)
        after = dict(zip(names, e.stack[0].locals[900].f))
        changed = [n for n in names if after[n] is not before[n]]
        if feasible(ex, e.guard, [ro]) == z3.sat:
            n_ro += 1
            ok, _ = prove(ex, e.guard, [ro], is_err)
            if not ok:
                viol.append({"why": "truncate on a read-only arena can return Ok"})
            real = [x for x in effs if "Error::new" not in x["func"]]  # building the error value is not an effect on the arena
            if real or changed:
                viol.append({"calls": [x["func"] for x in real][:3], "fields": changed, "why": "truncate on a read-only arena has an effect"})
            continue
        mt = [x for x in effs if x["func"] == "Memory::truncate"]
        if not mt:
            viol.append({"why": "writable path without a call of Memory::truncate"})
            continue
        a1, a2 = z64(mt[0]["args"][1]), z64(mt[0]["args"][2])
        al = [x for x in effs if isinstance(x["result"], z3.BitVecRef) and x["func"].endswith("::allocated") and x["args"] and isinstance(x["args"][0], LocalRef) and x["args"][0].local == 900]
        okargs, _ = prove(ex, e.guard, [], z3.And(a2 == z3.If(z3.UGE(a1, size), a1, size)))
        if not okargs:
            viol.append({"why": "Memory::truncate is not called with (allocated, max(size, allocated))"})
        if not al or not any(prove(ex, e.guard, [], a1 == z64(x["result"]))[0] for x in al):
            viol.append({"why": "the `allocated` handed to Memory::truncate is not the cursor read from the header"})
        if feasible(ex, e.guard, [z3.Not(is_err)]) == z3.sat:
            n_ok += 1
            others = [n for n in changed if n not in ("ptr", "cap")]
            if others:
                viol.append({"fields": others, "why": "truncate changed an arena field other than ptr / cap"})
            capc = [x for x in effs if x["func"].endswith("::cap") or x["func"].endswith("Memory::cap")]
            if "cap" not in changed and "ptr" not in changed:
                viol.append({"why": "ptr / cap of the arena are not refreshed from the Memory after a successful truncate"})
        else:
            n_fail += 1
            if changed:
                viol.append({"fields": changed, "why": "arena fields changed although Memory::truncate failed"})
    return [dict(function=names_fn[0], paths=n_paths, ok_paths=n_ok, id="T5",
                 text="unsync::Arena::truncate: read-only => Err without effect (paths %d); otherwise Memory::truncate(allocated(), max(size, allocated())), ptr/cap refreshed on success (paths %d), untouched on failure (paths %d)" % (n_ro, n_ok, n_fail),
                 holds=not viol, witnesses=viol[:4], vacuous=(n_ro == 0 or n_ok == 0))]


def main():
    mir_text = open(sys.argv[1]).read()
    mir_text = re.sub(r"// MIR FOR CTFE\nfn .*?^\}\n", "", mir_text, flags=re.S | re.M)
    src = sys.argv[2]
    out = {"obligations": [], "error": None}
    t0 = time.time()
    try:
        out["obligations"] += check_memory_truncate(mir_text, src)
        out["obligations"] += check_arena_truncate(mir_text, src)
    except Unsupported as e:
        out["error"] = "unsupported MIR construct: " + str(e)
    out["wall_s"] = round(time.time() - t0, 1)
    import os
    from . import effects as _E
    if os.environ.get("MIRSMT_DIFF"):
        out["second_solver"] = dict(_E.DIFF)
    json.dump(out, open(sys.argv[3], "w"), indent=1, default=str)
    print(json.dumps(out, indent=1, default=str)[:6000])


if __name__ == "__main__":
    main()
