"""Bounded model checking of interleavings: K-step unrolling of the product of thread transition
systems over an explicit word-array memory, with a symbolic scheduler."""
import z3, time
from . import ts as TS
from .sym import bv, Tup, MemRef
from .mir import Unsupported

IDLE = 255


class Model:
    def __init__(self, cap, threads, K, nown=2, spurious=1, hb=False):
        """threads: list[ThreadTS] (explored). cap: arena bytes (multiple of 8)."""
        self.cap, self.threads, self.K = cap, threads, K
        self.NW = cap // 8 + 1  # + the reference counter word
        self.REFS = cap
        self.nown = nown
        self.spurious = spurious
        self.cons = []
        self.W = [[z3.BitVec("W_%d_%d" % (k, i), 64) for i in range(self.NW)] for k in range(K + 1)]
        self.sched = [z3.BitVec("sched_%d" % k, 8) for k in range(K)]
        self.pc = [[z3.BitVec("pc_%d_%s" % (k, t.t), 8) for t in threads] for k in range(K + 1)]
        self.slots = []  # [k][ti] -> {tvar_name: stepvar}
        self.G = []  # [k][ti] -> dict of bookkeeping regs
        for k in range(K + 1):
            row, grow = [], []
            for t in threads:
                d = {}
                for name, tv in t.tvars.items():
                    d[name] = z3.Const("%s@%d" % (name, k), tv.sort())
                row.append(d)
                g = {"corrupt": z3.Bool("G_%s_corrupt@%d" % (t.t, k)), "oob": z3.Bool("G_%s_oob@%d" % (t.t, k)),
                     "spur": z3.BitVec("G_%s_spur@%d" % (t.t, k), 4), "unmounts": z3.BitVec("G_%s_unm@%d" % (t.t, k), 4)}
                for j in range(nown):
                    g["live%d" % j] = z3.Bool("G_%s_live%d@%d" % (t.t, j, k))
                    for f in ("lo", "hi", "plo", "phi"):
                        g["%s%d" % (f, j)] = z3.BitVec("G_%s_%s%d@%d" % (t.t, f, j, k), 32)
                grow.append(g)
            self.slots.append(row)
            self.G.append(grow)
        self.res_val = [[z3.BitVec("res_%d_%s" % (k, t.t), 64) for t in threads] for k in range(K)]
        self.res_ok = [[z3.Bool("ok_%d_%s" % (k, t.t)) for t in threads] for k in range(K)]
        self.spur = [z3.Bool("spurious_%d" % k) for k in range(K)]
        self.trace_info = []

    # ---------------------------------------------------------------- memory helpers
    def read64(self, W, addr):
        idx = z3.Extract(15, 3, addr)
        r = W[self.NW - 1]
        for i in range(self.NW - 2, -1, -1):
            r = z3.If(idx == i, W[i], r)
        return r

    def byte_of(self, W, b):
        """constant byte index b -> 8-bit term"""
        return z3.Extract(8 * (b % 8) + 7, 8 * (b % 8), W[b // 8])

    def subst(self, ti, k, term):
        t = self.threads[ti]
        pairs = self._pairs(ti, k)
        return z3.substitute(term, *pairs)

    def _pairs(self, ti, k):
        key = (ti, k)
        if not hasattr(self, "_pc"):
            self._pc = {}
        if key not in self._pc:
            t = self.threads[ti]
            pairs = [(tv, self.slots[k][ti][name]) for name, tv in t.tvars.items()]
            if k < self.K:
                pairs.append((t.RES_VAL, self.res_val[k][ti]))
                pairs.append((t.RES_OK, self.res_ok[k][ti]))
            self._pc[key] = pairs
        return self._pc[key]

    # ---------------------------------------------------------------- step relation
    def build(self):
        """The step relation is built once over template variables (cur/next) and instantiated
        K times by substitution."""
        T = len(self.threads)
        self.tW = [z3.BitVec("tW_%d" % i, 64) for i in range(self.NW)]
        self.tW1 = [z3.BitVec("tW1_%d" % i, 64) for i in range(self.NW)]
        self.tsched = z3.BitVec("tsched", 8)
        self.tpc = [z3.BitVec("tpc_%s" % t.t, 8) for t in self.threads]
        self.tpc1 = [z3.BitVec("tpc1_%s" % t.t, 8) for t in self.threads]
        self.tslots1 = [{name: z3.Const(name + "'", tv.sort()) for name, tv in t.tvars.items()} for t in self.threads]
        self.tG = [{g: z3.Const("t" + str(v) .split("@")[0], v.sort()) for g, v in self.G[0][ti].items()} for ti in range(T)]
        self.tG1 = [{g: z3.Const("t1" + str(v).split("@")[0], v.sort()) for g, v in self.G[0][ti].items()} for ti in range(T)]
        self.tspur = z3.Bool("tspur")
        self._tmpl = []
        self.step_template()
        big = z3.And(self._tmpl)
        for k in range(self.K):
            pairs = []
            for i in range(self.NW):
                pairs.append((self.tW[i], self.W[k][i]))
                pairs.append((self.tW1[i], self.W[k + 1][i]))
            pairs.append((self.tsched, self.sched[k]))
            pairs.append((self.tspur, self.spur[k]))
            for ti, t in enumerate(self.threads):
                pairs.append((self.tpc[ti], self.pc[k][ti]))
                pairs.append((self.tpc1[ti], self.pc[k + 1][ti]))
                pairs.append((t.RES_VAL, self.res_val[k][ti]))
                pairs.append((t.RES_OK, self.res_ok[k][ti]))
                for name, tv in t.tvars.items():
                    pairs.append((tv, self.slots[k][ti][name]))
                    pairs.append((self.tslots1[ti][name], self.slots[k + 1][ti][name]))
                for g in self.tG[ti]:
                    pairs.append((self.tG[ti][g], self.G[k][ti][g]))
                    pairs.append((self.tG1[ti][g], self.G[k + 1][ti][g]))
            self.cons.append(z3.substitute(big, *pairs))
        return self

    def _as64(self, v):
        if isinstance(v, MemRef):
            return v.addr
        if isinstance(v, z3.BoolRef):
            return z3.If(v, bv(1, 64), bv(0, 64))
        if v.size() < 64:
            return z3.ZeroExt(64 - v.size(), v)
        return v

    def step_template(self):
        W, W1 = self.tW, self.tW1
        sched = self.tsched
        T = len(self.threads)
        cons = self._tmpl
        ident = lambda ti, k, term: term
        all_done = z3.And([z3.UGE(self.tpc[ti], bv(TS.DONE, 8)) for ti in range(T)])
        # scheduler: a runnable thread, or idle when none is
        cons.append(z3.Or([sched == ti for ti in range(T)] + [sched == IDLE]))
        cons.append((sched == IDLE) == all_done)
        newW = list(W)
        for ti, t in enumerate(self.threads):
            sel = sched == ti
            pc = self.tpc[ti]
            cons.append(z3.Implies(sel, z3.ULT(pc, bv(TS.DONE, 8))))
            G, G1 = self.tG[ti], self.tG1[ti]
            # ---- gather the op of the current point
            word_pts, range_pts, own_pts, rel_pts, chk_pts, unm_pts = [], [], [], [], [], []
            for p in t.by_id.values():
                kind = p.op["kind"]
                if kind in ("load", "store", "compare_exchange", "compare_exchange_weak", "fetch_add", "fetch_sub"):
                    word_pts.append(p)
                elif kind in ("memset", "client::fill"):
                    range_pts.append(p)
                elif kind == "client::check":
                    chk_pts.append(p)
                elif kind == "client::own":
                    own_pts.append(p)
                elif kind == "client::release":
                    rel_pts.append(p)
                elif kind == "unmount":
                    unm_pts.append(p)
                elif kind == "nop":
                    pass
                else:
                    raise Unsupported("op kind " + kind)
            at = lambda p: pc == p.id
            # word accesses
            A = bv(0, 64)
            V = bv(0, 64)
            E = bv(0, 64)
            is32 = z3.BoolVal(False)
            fl = {n: [] for n in ("load", "store", "compare_exchange", "compare_exchange_weak", "fetch_add", "fetch_sub")}
            for p in word_pts:
                a = p.op["args"]
                addr = ident(ti, 0, self._as64(a[0]))
                A = z3.If(at(p), addr, A)
                kind = p.op["kind"]
                fl[kind].append(at(p))
                if p.op["width"] == 32:
                    is32 = z3.Or(is32, at(p))
                if kind == "store":
                    V = z3.If(at(p), ident(ti, 0, self._as64(a[1])), V)
                elif kind in ("compare_exchange", "compare_exchange_weak"):
                    E = z3.If(at(p), ident(ti, 0, self._as64(a[1])), E)
                    V = z3.If(at(p), ident(ti, 0, self._as64(a[2])), V)
                elif kind in ("fetch_add", "fetch_sub"):
                    V = z3.If(at(p), ident(ti, 0, self._as64(a[1])), V)
            f = {n: (z3.Or(v) if v else z3.BoolVal(False)) for n, v in fl.items()}
            is_word = z3.Or([at(p) for p in word_pts]) if word_pts else z3.BoolVal(False)
            word = self.read64(W, A)
            hi_half = z3.Extract(2, 2, A) == 1
            cur32 = z3.If(hi_half, z3.Extract(63, 32, word), z3.Extract(31, 0, word))
            cur = z3.If(is32, z3.ZeroExt(32, cur32), word)
            is_cas = z3.Or(f["compare_exchange"], f["compare_exchange_weak"])
            spur = z3.And(self.tspur, f["compare_exchange_weak"], z3.ULT(G["spur"], bv(self.spurious, 4)))
            ok = z3.And(cur == E, z3.Not(spur))
            cons.append(z3.Implies(sel, t.RES_VAL == cur))
            nv = z3.If(f["store"], V,
                       z3.If(is_cas, z3.If(ok, V, cur),
                             z3.If(f["fetch_add"], cur + V, z3.If(f["fetch_sub"], cur - V, cur))))
            writes = z3.Or(f["store"], z3.And(is_cas, ok), f["fetch_add"], f["fetch_sub"])
            nv32 = z3.Extract(31, 0, nv)
            neww = z3.If(is32, z3.If(hi_half, z3.Concat(nv32, z3.Extract(31, 0, word)), z3.Concat(z3.Extract(63, 32, word), nv32)), nv)
            widx = z3.Extract(15, 3, A)
            valid = z3.If(is32,
                          z3.And(z3.Extract(1, 0, A) == 0, z3.ULT(A, bv(self.cap, 64))),
                          z3.And(z3.Extract(2, 0, A) == 0, z3.ULE(A, bv(self.REFS, 64))))
            oob_now = z3.And(is_word, z3.Not(valid))
            # range writes (memset by the arena, pattern fill by the client)
            RL = bv(0, 64)
            RN = bv(0, 64)
            RB = bv(0, 8)
            is_range = z3.Or([at(p) for p in range_pts]) if range_pts else z3.BoolVal(False)
            for p in range_pts:
                a = p.op["args"]
                if p.op["kind"] == "memset":
                    lo, byte, n = self._as64(a[0]), a[1], self._as64(a[2])
                else:
                    meta, byte = a[0], a[1]
                    lo, n = self._as64(meta.f[3]), self._as64(meta.f[4])
                RL = z3.If(at(p), ident(ti, 0, lo), RL)
                RN = z3.If(at(p), ident(ti, 0, n), RN)
                RB = z3.If(at(p), ident(ti, 0, byte), RB)
            range_bad = z3.And(is_range, z3.Not(z3.And(z3.ULE(RL, bv(self.cap, 64)), z3.ULE(RN, bv(self.cap, 64)), z3.ULE(RL + RN, bv(self.cap, 64)))))
            oob_now = z3.Or(oob_now, range_bad)
            # client check
            CL = bv(0, 64)
            CN = bv(0, 64)
            CB = bv(0, 8)
            is_chk = z3.Or([at(p) for p in chk_pts]) if chk_pts else z3.BoolVal(False)
            for p in chk_pts:
                meta, byte = p.op["args"][0], p.op["args"][1]
                CL = z3.If(at(p), ident(ti, 0, self._as64(meta.f[3])), CL)
                CN = z3.If(at(p), ident(ti, 0, self._as64(meta.f[4])), CN)
                CB = z3.If(at(p), ident(ti, 0, byte), CB)
            chk_ok = z3.BoolVal(True)
            if chk_pts:
                conj = []
                for b in range(self.cap):
                    inr = z3.And(z3.ULE(CL, bv(b, 64)), z3.ULT(bv(b, 64), CL + CN))
                    conj.append(z3.Implies(inr, self.byte_of(W, b) == CB))
                chk_ok = z3.And(conj)
            cons.append(z3.Implies(sel, t.RES_OK == z3.If(is_chk, chk_ok, ok)))
            # ---- memory update
            for i in range(self.NW):
                w = newW[i]
                upd = z3.If(z3.And(sel, is_word, writes, widx == i), neww, w)
                if range_pts and i < self.NW - 1:
                    bytes_ = []
                    for j in range(7, -1, -1):
                        b = 8 * i + j
                        inr = z3.And(z3.ULE(RL, bv(b, 64)), z3.ULT(bv(b, 64), RL + RN))
                        bytes_.append(z3.If(inr, RB, z3.Extract(8 * j + 7, 8 * j, W[i])))
                    upd = z3.If(z3.And(sel, is_range), z3.Concat(*bytes_), upd)
                newW[i] = upd
            # ---- bookkeeping registers
            cons.append(G1["oob"] == z3.Or(G["oob"], z3.And(sel, oob_now)))
            cons.append(G1["corrupt"] == z3.Or(G["corrupt"], z3.And(sel, is_chk, z3.Not(chk_ok))))
            cons.append(G1["spur"] == z3.If(z3.And(sel, spur), G["spur"] + 1, G["spur"]))
            is_unm = z3.Or([at(p) for p in unm_pts]) if unm_pts else z3.BoolVal(False)
            cons.append(G1["unmounts"] == z3.If(z3.And(sel, is_unm), G["unmounts"] + 1, G["unmounts"]))
            for j in range(self.nown):
                live, lo, hi, plo, phi = G["live%d" % j], G["lo%d" % j], G["hi%d" % j], G["plo%d" % j], G["phi%d" % j]
                nl, nlo, nhi, nplo, nphi = live, lo, hi, plo, phi
                for p in own_pts:
                    meta, idx = p.op["args"][0], p.op["args"][1]
                    if z3.simplify(idx).as_long() != j:
                        continue
                    c = z3.And(sel, at(p))
                    mo, ms, po, ps = [ident(ti, 0, x) for x in (meta.f[1], meta.f[2], meta.f[3], meta.f[4])]
                    e1, e2 = z3.ZeroExt(1, mo) + z3.ZeroExt(1, ms), z3.ZeroExt(1, po) + z3.ZeroExt(1, ps)
                    ulo = z3.If(z3.ULE(mo, po), mo, po)
                    uhi33 = z3.If(z3.UGE(e1, e2), e1, e2)
                    # an end beyond 2^32 is reported as out of bounds by saturating the extent
                    uhi = z3.If(z3.Extract(32, 32, uhi33) == 1, bv(0xFFFFFFFF, 32), z3.Extract(31, 0, uhi33))
                    nl, nlo, nhi = z3.If(c, True, nl), z3.If(c, ulo, nlo), z3.If(c, uhi, nhi)
                    nplo, nphi = z3.If(c, po, nplo), z3.If(c, po + ps, nphi)
                for p in rel_pts:
                    if z3.simplify(p.op["args"][0]).as_long() != j:
                        continue
                    nl = z3.If(z3.And(sel, at(p)), False, nl)
                cons.append(G1["live%d" % j] == nl)
                cons.append(G1["lo%d" % j] == nlo)
                cons.append(G1["hi%d" % j] == nhi)
                cons.append(G1["plo%d" % j] == nplo)
                cons.append(G1["phi%d" % j] == nphi)
            # ---- control and locals
            npc = pc
            by_slot = {}
            for tr in t.trans:
                c = z3.And(at(t.by_id[tr.src]), ident(ti, 0, tr.guard))
                npc = z3.If(c, bv(tr.dst, 8), npc)
                for tv, term in tr.updates.items():
                    by_slot.setdefault(str(tv), []).append((c, term))
            cons.append(self.tpc1[ti] == z3.If(sel, npc, pc))
            for name in t.tvars:
                curv = t.tvars[name]
                nxt = curv
                for (c, term) in by_slot.get(name, ()):
                    nxt = z3.If(c, ident(ti, 0, term), nxt)
                cons.append(self.tslots1[ti][name] == (z3.If(sel, nxt, curv) if name in by_slot else curv))
        for i in range(self.NW):
            cons.append(W1[i] == newW[i])

    # ---------------------------------------------------------------- predicates
    def all_done(self, k):
        return z3.And([self.pc[k][ti] == TS.DONE for ti in range(len(self.threads))])

    def bad(self, k, dofs):
        """overlap of two live extents, an extent outside the data area, corrupted pattern, invalid access, panic"""
        bads = {}
        T = len(self.threads)
        ext = []
        for ti in range(T):
            G = self.G[k][ti]
            bads["panic_%s" % self.threads[ti].t] = self.pc[k][ti] == TS.PANIC
            bads["unreachable_%s" % self.threads[ti].t] = self.pc[k][ti] == TS.UNREACH
            bads["corrupt_%s" % self.threads[ti].t] = G["corrupt"]
            bads["oob_%s" % self.threads[ti].t] = G["oob"]
            for j in range(self.nown):
                ext.append((ti, j, G["live%d" % j], G["lo%d" % j], G["hi%d" % j]))
        outs, ovl = [], []
        for (ti, j, live, lo, hi) in ext:
            outs.append(z3.And(live, z3.ULT(lo, hi), z3.Or(z3.ULT(lo, bv(dofs, 32)), z3.UGT(hi, bv(self.cap, 32)))))
        for a in range(len(ext)):
            for b in range(a + 1, len(ext)):
                (_, _, l1, lo1, hi1), (_, _, l2, lo2, hi2) = ext[a], ext[b]
                ovl.append(z3.And(l1, l2, z3.ULT(lo1, hi1), z3.ULT(lo2, hi2), z3.ULT(lo1, hi2), z3.ULT(lo2, hi1)))
        bads["out_of_data_area"] = z3.Or(outs) if outs else z3.BoolVal(False)
        bads["overlap"] = z3.Or(ovl) if ovl else z3.BoolVal(False)
        return bads

    def state_eq(self, i, j):
        eqs = [self.W[i][w] == self.W[j][w] for w in range(self.NW)]
        for ti, t in enumerate(self.threads):
            eqs.append(self.pc[i][ti] == self.pc[j][ti])
            for name in t.tvars:
                eqs.append(self.slots[i][ti][name] == self.slots[j][ti][name])
            for g in self.G[i][ti]:
                eqs.append(self.G[i][ti][g] == self.G[j][ti][g])
        return z3.And(eqs)

    def lasso(self):
        """exists i<j: equal global states, not everyone finished, every unfinished thread moved in [i,j)"""
        alts = []
        T = len(self.threads)
        for i in range(self.K):
            for j in range(i + 1, self.K + 1):
                fair = []
                for ti in range(T):
                    fin = z3.UGE(self.pc[i][ti], bv(TS.DONE, 8))
                    fair.append(z3.Or(fin, z3.Or([self.sched[m] == ti for m in range(i, j)])))
                alts.append(z3.And(self.state_eq(i, j), z3.Not(z3.And([z3.UGE(self.pc[i][ti], bv(TS.DONE, 8)) for ti in range(T)])), z3.And(fair)))
        return z3.Or(alts)

    # ---------------------------------------------------------------- solving / decoding
    def solve(self, extra, timeout_s=600, want_model=True):
        s = z3.Solver()
        s.set("timeout", int(timeout_s * 1000))
        s.add(self.cons)
        s.add(extra)
        t0 = time.time()
        r = s.check()
        dt = time.time() - t0
        m = s.model() if r == z3.sat else None
        return str(r), m, dt, s

    def decode(self, m):
        """schedule and per-step ops of a model"""
        steps = []
        for k in range(self.K):
            sc = m.eval(self.sched[k], model_completion=True).as_long()
            if sc == IDLE:
                break
            t = self.threads[sc]
            pcv = m.eval(self.pc[k][sc], model_completion=True).as_long()
            p = t.by_id.get(pcv)
            ent = {"k": k, "thread": t.t, "point": pcv, "desc": p.desc if p else "?"}
            if p and p.op["kind"] in ("load", "store", "compare_exchange", "compare_exchange_weak", "fetch_add", "fetch_sub"):
                a = m.eval(self.subst(sc, k, self._as64(p.op["args"][0])), model_completion=True).as_long()
                ent["addr"] = a
                ent["old"] = m.eval(self.res_val[k][sc], model_completion=True).as_long()
                if "compare" in p.op["kind"]:
                    ent["ok"] = z3.is_true(m.eval(self.res_ok[k][sc], model_completion=True))
                    ent["spurious"] = z3.is_true(m.eval(self.spur[k], model_completion=True)) and p.op["kind"].endswith("weak")
            ent["next_pc"] = m.eval(self.pc[k + 1][sc], model_completion=True).as_long()
            steps.append(ent)
        return steps

    def words(self, m, k):
        return [m.eval(self.W[k][i], model_completion=True).as_long() for i in range(self.NW)]
