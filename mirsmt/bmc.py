"""Bounded model checking of interleavings over a *schedule plan*.

A plan is a list of chunks (thread index, maximal number of steps); chunk after chunk, the chunk's
thread takes between 0 and its maximal number of steps and then yields (a context switch). How many
steps each chunk really takes is decided by the solver (one Boolean `run[k]` per step, monotone inside a
chunk), so one query covers every interleaving with that context-switch shape - e.g. the plan
A^20 B^12 A^20 covers all schedules a* b* a* of two threads with at most 20/12 steps each.  All context
switch shapes up to the stated number of switches are covered by running the query for every plan of
that family (see driver).  Compared with a free scheduler variable per step this keeps the formula of a
step down to one thread's step relation and removes the scheduling search from the SAT problem.

State: the arena words W[i] (64-bit; one extra word for Memory.refs), and per thread a program counter,
registers (live template slots after liveness analysis / register allocation, ts.ThreadTS.analyse) and
monitor flags.  The step relation of each thread is built once over template variables and instantiated
by substitution for every step of the plan that belongs to that thread."""
import z3, time
from . import ts as TS
from . import sym
from .sym import bv, Tup, MemRef
from .mir import Unsupported

ATOMIC_KINDS = ("load", "store", "compare_exchange", "compare_exchange_weak", "fetch_add", "fetch_sub")
ORD = {0: "Relaxed", 1: "Release", 2: "Acquire", 3: "AcqRel", 4: "SeqCst"}
NB = 10  # bits used for byte positions inside the arena (after an explicit bounds check)


def ord_of(v):
    d = v.discr if isinstance(v, sym.Enum) else None
    if isinstance(d, int):
        return ORD[d]
    raise Unsupported("non-constant memory ordering")


class Model:
    def __init__(self, cap, threads, plan, spurious=1, hb=False, dofs=0, spawner=None):
        """plan: [(thread index, max steps)], executed chunk after chunk."""
        self.cap, self.threads = cap, threads
        self.chunks = list(plan)
        self.plan = []
        self.chunk_of = []
        for ci, (ti, n) in enumerate(self.chunks):
            self.plan += [ti] * n
            self.chunk_of += [ci] * n
        self.K = K = len(self.plan)
        self.NW = cap // 8 + 1
        self.REFS = cap
        self.spurious = spurious
        self.hb = hb
        self.spawner = spawner  # thread whose completion happens-before the start of every other thread (the set-up thread)
        self.dofs = dofs
        self.cons = []
        self.T = T = len(threads)
        self.W = [[z3.BitVec("W_%d_%d" % (k, i), 64) for i in range(self.NW)] for k in range(K + 1)]
        self.run = [z3.Bool("run_%d" % k) for k in range(K)]
        self.spur = [z3.Bool("spurious_%d" % k) for k in range(K)]
        self.res_val = [z3.BitVec("res_%d" % k, 64) for k in range(K)]
        self.res_ok = [z3.Bool("ok_%d" % k) for k in range(K)]
        # thread-local state only gets fresh variables at the steps of that thread
        self.pc, self.R, self.F = [], [], []
        ver = [0] * T
        for k in range(K + 1):
            if k > 0:
                ver[self.plan[k - 1]] += 1
            prow, rrow, frow = [], [], []
            for ti, t in enumerate(threads):
                if k > 0 and self.plan[k - 1] != ti:
                    prow.append(self.pc[k - 1][ti])
                    rrow.append(self.R[k - 1][ti])
                    frow.append(self.F[k - 1][ti])
                    continue
                v = ver[ti]
                prow.append(z3.BitVec("pc_%s@%d" % (t.t, v), 8))
                d = {}
                for sk, n in t.regs.items():
                    for i in range(n):
                        d[(sk, i)] = z3.Const("R_%s_%s_%d@%d" % (t.t, sk.replace("(", "").replace(")", ""), i, v), t.sort_of[sk])
                rrow.append(d)
                frow.append({"corrupt": z3.Bool("F_%s_corrupt@%d" % (t.t, v)), "oob": z3.Bool("F_%s_oob@%d" % (t.t, v)),
                             "spur": z3.BitVec("F_%s_spur@%d" % (t.t, v), 3), "unmounts": z3.BitVec("F_%s_unm@%d" % (t.t, v), 3)})
            self.pc.append(prow)
            self.R.append(rrow)
            self.F.append(frow)
        self.H = []
        if hb:
            self.CW = 5
            self.wit = z3.BitVec("hb_witness_byte", 16)
            for k in range(K + 1):
                self.H.append(self._hb_vars("H%d" % k))

    # ---------------------------------------------------------------- helpers
    def read64(self, W, addr):
        idx = z3.Extract(15, 3, addr)
        r = W[self.NW - 1]
        for i in range(self.NW - 2, -1, -1):
            r = z3.If(idx == i, W[i], r)
        return r

    def byte_of(self, W, b):
        return z3.Extract(8 * (b % 8) + 7, 8 * (b % 8), W[b // 8])

    def _as64(self, v):
        if isinstance(v, MemRef):
            return v.addr
        if isinstance(v, z3.BoolRef):
            return z3.If(v, bv(1, 64), bv(0, 64))
        if v.size() < 64:
            return z3.ZeroExt(64 - v.size(), v)
        return v

    def reg_pairs(self, ti, regs):
        t = self.threads[ti]
        return [(t.tvars[n], regs[r]) for n, r in t.reg_of.items()]

    def _hb_vars(self, pfx):
        T = self.T
        return {"vc": [[z3.BitVec("%s_VC_%d_%d" % (pfx, a, b), self.CW) for b in range(T)] for a in range(T)],
                "rel": [[z3.BitVec("%s_REL_%d_%d" % (pfx, i, b), self.CW) for b in range(T)] for i in range(self.NW)],
                "lw_t": z3.BitVec("%s_LW_t" % pfx, 8), "lw_c": z3.BitVec("%s_LW_c" % pfx, self.CW),
                "lr": [z3.BitVec("%s_LR_%d" % (pfx, b), self.CW) for b in range(T)],
                "race": z3.Bool("%s_RACE" % pfx)}

    def _hb_pairs(self, a, b):
        out = []
        for x in range(self.T):
            for y in range(self.T):
                out.append((a["vc"][x][y], b["vc"][x][y]))
        for i in range(self.NW):
            for y in range(self.T):
                out.append((a["rel"][i][y], b["rel"][i][y]))
        out += [(a["lw_t"], b["lw_t"]), (a["lw_c"], b["lw_c"]), (a["race"], b["race"])]
        for y in range(self.T):
            out.append((a["lr"][y], b["lr"][y]))
        return out

    # ---------------------------------------------------------------- step relation
    def build(self):
        self.tW = [z3.BitVec("tW_%d" % i, 64) for i in range(self.NW)]
        self.tW1 = [z3.BitVec("tW1_%d" % i, 64) for i in range(self.NW)]
        self.trun = z3.Bool("trun")
        self.tspur = z3.Bool("tspur")
        self.tres_val = z3.BitVec("tres_val", 64)
        self.tres_ok = z3.Bool("tres_ok")
        if self.hb:
            self.tH = self._hb_vars("tH")
            self.tH1 = self._hb_vars("tH1")
        self.tmpl = []
        for ti, t in enumerate(self.threads):
            self.tmpl.append(self.thread_template(ti, t))
        for k in range(self.K):
            ti = self.plan[k]
            tm = self.tmpl[ti]
            self.cons.append(z3.substitute(tm["rel"], *self._pairs(k, ti)))
            if k > 0 and self.chunk_of[k] == self.chunk_of[k - 1]:
                self.cons.append(z3.Implies(z3.Not(self.run[k - 1]), z3.Not(self.run[k])))
        return self

    def _pairs(self, k, ti):
        tm = self.tmpl[ti]
        pairs = []
        for i in range(self.NW):
            pairs.append((self.tW[i], self.W[k][i]))
            pairs.append((self.tW1[i], self.W[k + 1][i]))
        pairs += [(self.trun, self.run[k]), (self.tspur, self.spur[k]), (self.tres_val, self.res_val[k]), (self.tres_ok, self.res_ok[k])]
        pairs += [(tm["pc"], self.pc[k][ti]), (tm["pc1"], self.pc[k + 1][ti])]
        for r in tm["R"]:
            pairs.append((tm["R"][r], self.R[k][ti][r]))
            pairs.append((tm["R1"][r], self.R[k + 1][ti][r]))
        for g in tm["F"]:
            pairs.append((tm["F"][g], self.F[k][ti][g]))
            pairs.append((tm["F1"][g], self.F[k + 1][ti][g]))
        if self.hb:
            pairs += self._hb_pairs(self.tH, self.H[k]) + self._hb_pairs(self.tH1, self.H[k + 1])
        return pairs

    def thread_template(self, ti, t):
        W, W1 = self.tW, self.tW1
        sel = self.trun
        cons = []
        pc = z3.BitVec("tpc_%s" % t.t, 8)
        pc1 = z3.BitVec("tpc1_%s" % t.t, 8)
        R = {}
        R1 = {}
        for sk, n in t.regs.items():
            for i in range(n):
                R[(sk, i)] = z3.Const("tR_%s_%s_%d" % (t.t, sk, i), t.sort_of[sk])
                R1[(sk, i)] = z3.Const("tR1_%s_%s_%d" % (t.t, sk, i), t.sort_of[sk])
        F = {"corrupt": z3.Bool("tF_%s_corrupt" % t.t), "oob": z3.Bool("tF_%s_oob" % t.t), "spur": z3.BitVec("tF_%s_spur" % t.t, 3), "unmounts": z3.BitVec("tF_%s_unm" % t.t, 3)}
        F1 = {g: z3.Const("tF1_%s_%s" % (t.t, g), v.sort()) for g, v in F.items()}
        cons.append(z3.Implies(sel, z3.ULT(pc, bv(TS.DONE, 8))))
        sub = self.reg_pairs(ti, R)

        def S(term):
            return z3.substitute(term, *sub) if sub else term

        word_pts, range_pts, chk_pts, unm_pts = [], [], [], []
        for p in t.by_id.values():
            kind = p.op["kind"]
            if kind in ATOMIC_KINDS:
                word_pts.append(p)
            elif kind in ("memset", "client::fill", "client::fill_range"):
                range_pts.append(p)
            elif kind == "client::check":
                chk_pts.append(p)
            elif kind == "unmount":
                unm_pts.append(p)
            elif kind == "nop":
                pass
            else:
                raise Unsupported("op kind " + kind)
        at = lambda p: pc == p.id
        A = bv(0, 64)
        V = bv(0, 64)
        E = bv(0, 64)
        is32 = z3.BoolVal(False)
        fl = {n: [] for n in ATOMIC_KINDS}
        for p in word_pts:
            a = p.op["args"]
            A = z3.If(at(p), S(self._as64(a[0])), A)
            kind = p.op["kind"]
            fl[kind].append(at(p))
            if p.op["width"] == 32:
                is32 = z3.Or(is32, at(p))
            if kind == "store":
                V = z3.If(at(p), S(self._as64(a[1])), V)
            elif kind in ("compare_exchange", "compare_exchange_weak"):
                E = z3.If(at(p), S(self._as64(a[1])), E)
                V = z3.If(at(p), S(self._as64(a[2])), V)
            elif kind in ("fetch_add", "fetch_sub"):
                V = z3.If(at(p), S(self._as64(a[1])), V)
        f = {n: (z3.Or(v) if v else z3.BoolVal(False)) for n, v in fl.items()}
        is_word = z3.Or([at(p) for p in word_pts]) if word_pts else z3.BoolVal(False)
        word = self.read64(W, A)
        hi_half = z3.Extract(2, 2, A) == 1
        cur32 = z3.If(hi_half, z3.Extract(63, 32, word), z3.Extract(31, 0, word))
        cur = z3.If(is32, z3.ZeroExt(32, cur32), word)
        is_cas = z3.Or(f["compare_exchange"], f["compare_exchange_weak"])
        spur = z3.And(self.tspur, f["compare_exchange_weak"], z3.ULT(F["spur"], bv(self.spurious, 3)))
        ok = z3.And(cur == E, z3.Not(spur))
        addv = z3.If(is32, z3.ZeroExt(32, z3.Extract(31, 0, cur + V)), cur + V)
        subv = z3.If(is32, z3.ZeroExt(32, z3.Extract(31, 0, cur - V)), cur - V)
        nv = z3.If(f["store"], V,
                   z3.If(is_cas, z3.If(ok, V, cur),
                         z3.If(f["fetch_add"], addv, z3.If(f["fetch_sub"], subv, cur))))
        writes = z3.Or(f["store"], z3.And(is_cas, ok), f["fetch_add"], f["fetch_sub"])
        nv32 = z3.Extract(31, 0, nv)
        neww = z3.If(is32, z3.If(hi_half, z3.Concat(nv32, z3.Extract(31, 0, word)), z3.Concat(z3.Extract(63, 32, word), nv32)), nv)
        widx = z3.Extract(15, 3, A)
        valid = z3.If(is32,
                      z3.And(z3.Extract(1, 0, A) == 0, z3.ULT(A, bv(self.cap, 64))),
                      z3.And(z3.Extract(2, 0, A) == 0, z3.ULE(A, bv(self.REFS, 64))))
        oob_now = z3.And(is_word, z3.Not(valid))
        # ---- range writes
        RL = bv(0, 64)
        RN = bv(0, 64)
        RB = bv(0, 8)
        is_range = z3.Or([at(p) for p in range_pts]) if range_pts else z3.BoolVal(False)
        for p in range_pts:
            a = p.op["args"]
            if p.op["kind"] == "memset":
                lo, byte, n = self._as64(a[0]), a[1], self._as64(a[2])
            elif p.op["kind"] == "client::fill_range":
                lo, n, byte = self._as64(a[0]), self._as64(a[1]), a[2]
            else:
                meta, byte = a[0], a[1]
                lo, n = self._as64(meta.f[3]), self._as64(meta.f[4])
            RL = z3.If(at(p), S(lo), RL)
            RN = z3.If(at(p), S(n), RN)
            RB = z3.If(at(p), S(byte), RB)
        capv = bv(self.cap, 64)
        range_ok = z3.And(z3.ULE(RL, capv), z3.ULE(RN, capv), z3.ULE(RL + RN, capv))
        oob_now = z3.Or(oob_now, z3.And(is_range, z3.Not(range_ok)))
        rl, rh = z3.Extract(NB - 1, 0, RL), z3.Extract(NB - 1, 0, RL + RN)
        # ---- client check
        CL = bv(0, 64)
        CN = bv(0, 64)
        CB = bv(0, 8)
        is_chk = z3.Or([at(p) for p in chk_pts]) if chk_pts else z3.BoolVal(False)
        for p in chk_pts:
            meta, byte = p.op["args"][0], p.op["args"][1]
            CL = z3.If(at(p), S(self._as64(meta.f[3])), CL)
            CN = z3.If(at(p), S(self._as64(meta.f[4])), CN)
            CB = z3.If(at(p), S(byte), CB)
        chk_ok = z3.BoolVal(True)
        cl = ch = None
        if chk_pts:
            chk_in = z3.And(z3.ULE(CL, capv), z3.ULE(CN, capv), z3.ULE(CL + CN, capv))
            cl, ch = z3.Extract(NB - 1, 0, CL), z3.Extract(NB - 1, 0, CL + CN)
            conj = [chk_in]
            for b in range(self.dofs, self.cap):
                inr = z3.And(z3.ULE(cl, bv(b, NB)), z3.ULT(bv(b, NB), ch))
                conj.append(z3.Implies(inr, self.byte_of(W, b) == CB))
            chk_ok = z3.And(conj)
        res_val, res_ok = self.tres_val, self.tres_ok
        cons.append(res_val == cur)
        cons.append(res_ok == z3.If(is_chk, chk_ok, ok))
        # ---- memory update
        for i in range(self.NW):
            upd = z3.If(z3.And(sel, is_word, writes, valid, widx == i), neww, W[i])
            if range_pts and i < self.NW - 1:
                bytes_ = []
                for j in range(7, -1, -1):
                    b = 8 * i + j
                    inr = z3.And(z3.ULE(rl, bv(b, NB)), z3.ULT(bv(b, NB), rh))
                    bytes_.append(z3.If(inr, RB, z3.Extract(8 * j + 7, 8 * j, W[i])))
                upd = z3.If(z3.And(sel, is_range, range_ok), z3.Concat(*bytes_), upd)
            cons.append(W1[i] == upd)
        # ---- monitor flags
        oob1 = z3.Or(F["oob"], z3.And(sel, oob_now))
        cor1 = z3.Or(F["corrupt"], z3.And(sel, is_chk, z3.Not(chk_ok)))
        spur1 = z3.If(z3.And(sel, spur), F["spur"] + 1, F["spur"])
        is_unm = z3.Or([at(p) for p in unm_pts]) if unm_pts else z3.BoolVal(False)
        unm1 = z3.If(z3.And(sel, is_unm), F["unmounts"] + 1, F["unmounts"])
        cons += [F1["oob"] == oob1, F1["corrupt"] == cor1, F1["spur"] == spur1, F1["unmounts"] == unm1]
        # ---- control and registers
        res_sub = [(t.RES_VAL, res_val), (t.RES_OK, res_ok)]

        def SR(term):
            return z3.substitute(term, *(sub + res_sub))

        npc = pc
        by_reg = {}
        for tr in t.trans:
            src = t.by_id[tr.src]
            c = z3.And(at(src), SR(tr.guard))
            npc = z3.If(c, bv(tr.dst, 8), npc)
            dst_live = t.live.get(tr.dst, t.always_live)
            for tv, term in tr.updates.items():
                n = str(tv)
                if n in t.reg_of and n in dst_live:
                    r = t.reg_of[n]
                    val = SR(term)
                    if val.eq(R[r]):
                        continue
                    by_reg.setdefault(r, {}).setdefault(val.get_id(), [val, []])[1].append(c)
        cons.append(pc1 == z3.If(sel, npc, pc))
        same = [npc == pc]
        livemask = {}
        for r, curv in R.items():
            nxt = curv
            for (val, conds) in by_reg.get(r, {}).values():
                nxt = z3.If(z3.Or(conds) if len(conds) > 1 else conds[0], val, nxt)
            cons.append(R1[r] == (z3.If(sel, nxt, curv) if r in by_reg else curv))
            if r in by_reg:
                lm = z3.Or([pc == pid for pid, L in t.live.items() if any(t.reg_of.get(n) == r for n in L)] or [z3.BoolVal(False)])
                livemask[r] = lm
                same.append(z3.Or(z3.Not(lm), nxt == curv))
        mem_same = z3.And(z3.Not(z3.And(is_word, writes, valid, neww != word)), z3.Not(is_range))
        # a step that changes nothing at all: one iteration of a spin-wait
        stutter = z3.And(sel, z3.And(same), mem_same, z3.Not(spur), oob1 == F["oob"], cor1 == F["corrupt"], z3.Not(is_unm))
        if self.hb:
            cons += self._hb_thread(ti, t, sel, at, word_pts, unm_pts, widx, ok, rl, rh, cl, ch, is_word, is_range, is_chk)
        return {"rel": z3.And(cons), "pc": pc, "pc1": pc1, "R": R, "R1": R1, "F": F, "F1": F1, "stutter": stutter, "livemask": livemask, "spin_addr": A,
                "spin_word": word}

    # ---------------------------------------------------------------- happens-before (C12)
    def _hb_thread(self, ti, t, sel, at, word_pts, unm_pts, widx, ok, rl, rh, cl, ch, is_word, is_range, is_chk):
        H, H1 = self.tH, self.tH1
        T = self.T
        CW = self.CW
        acq = z3.BoolVal(False)
        rel = z3.BoolVal(False)
        rmw = z3.BoolVal(False)
        plain_store = z3.BoolVal(False)
        for p in word_pts:
            kind = p.op["kind"]
            a = p.op["args"]
            here = at(p)
            if kind == "load":
                if ord_of(a[1]) in ("Acquire", "SeqCst", "AcqRel"):
                    acq = z3.Or(acq, here)
            elif kind == "store":
                if ord_of(a[2]) in ("Release", "SeqCst", "AcqRel"):
                    rel = z3.Or(rel, here)
                else:
                    plain_store = z3.Or(plain_store, here)
            elif kind in ("compare_exchange", "compare_exchange_weak"):
                so, fo = ord_of(a[3]), ord_of(a[4])
                if so in ("Acquire", "AcqRel", "SeqCst"):
                    acq = z3.Or(acq, z3.And(here, ok))
                if fo in ("Acquire", "AcqRel", "SeqCst"):
                    acq = z3.Or(acq, z3.And(here, z3.Not(ok)))
                if so in ("Release", "AcqRel", "SeqCst"):
                    rel = z3.Or(rel, z3.And(here, ok))
                rmw = z3.Or(rmw, z3.And(here, ok))
            else:
                o = ord_of(a[2])
                if o in ("Acquire", "AcqRel", "SeqCst"):
                    acq = z3.Or(acq, here)
                if o in ("Release", "AcqRel", "SeqCst"):
                    rel = z3.Or(rel, here)
                rmw = z3.Or(rmw, here)
        acq, rel, rmw, plain_store = [z3.And(sel, is_word, x) for x in (acq, rel, rmw, plain_store)]
        wit = z3.Extract(NB - 1, 0, self.wit)
        wr_wit = z3.And(sel, is_range, z3.ULE(rl, wit), z3.ULT(wit, rh))
        rd_wit = z3.And(sel, is_chk, z3.ULE(cl, wit), z3.ULT(wit, ch)) if cl is not None else z3.BoolVal(False)
        unm = z3.And(sel, z3.Or([at(p) for p in unm_pts])) if unm_pts else z3.BoolVal(False)

        def mx(a, b):
            return z3.If(z3.UGE(a, b), a, b)

        cons = []
        relw = [H["rel"][self.NW - 1][b] for b in range(T)]
        for i in range(self.NW - 2, -1, -1):
            relw = [z3.If(widx == i, H["rel"][i][b], relw[b]) for b in range(T)]
        my = [z3.If(acq, mx(H["vc"][ti][b], relw[b]), H["vc"][ti][b]) for b in range(T)]
        if self.spawner is not None and ti != self.spawner:
            # thread creation: everything the spawner did happens-before the first step of this thread
            start_id = t.points[("start",)].id
            first = z3.And(sel, at(t.by_id[start_id]))
            my = [z3.If(first, mx(my[b], H["vc"][self.spawner][b]), my[b]) for b in range(T)]
        for a in range(T):
            for b in range(T):
                if a != ti:
                    cons.append(H1["vc"][a][b] == H["vc"][a][b])
                else:
                    cons.append(H1["vc"][a][b] == (z3.If(sel, my[b] + 1, my[b]) if b == ti else my[b]))
        for i in range(self.NW):
            hit = widx == i
            for b in range(T):
                cur = H["rel"][i][b]
                v = z3.If(z3.And(hit, rel, rmw), mx(cur, my[b]),
                          z3.If(z3.And(hit, rel), my[b],
                                z3.If(z3.And(hit, plain_store), bv(0, CW), cur)))
                cons.append(H1["rel"][i][b] == v)
        lw_t, lw_c, lr = H["lw_t"], H["lw_c"], H["lr"]
        my_of_lw = my[-1]
        for b in range(T - 2, -1, -1):
            my_of_lw = z3.If(lw_t == b, my[b], my_of_lw)
        prev_w_unordered = z3.And(lw_t != 255, lw_t != ti, z3.UGT(lw_c, my_of_lw))
        prev_r_unordered = z3.Or([z3.UGT(lr[b], my[b]) for b in range(T) if b != ti] or [z3.BoolVal(False)])
        race = z3.Or(H["race"], z3.And(wr_wit, z3.Or(prev_w_unordered, prev_r_unordered)), z3.And(rd_wit, prev_w_unordered),
                     z3.And(unm, z3.Or(prev_w_unordered, prev_r_unordered)))
        stamp = my[ti] + 1
        cons.append(H1["race"] == race)
        cons.append(H1["lw_t"] == z3.If(wr_wit, bv(ti, 8), lw_t))
        cons.append(H1["lw_c"] == z3.If(wr_wit, stamp, lw_c))
        for b in range(T):
            if b == ti:
                cons.append(H1["lr"][b] == z3.If(wr_wit, bv(0, CW), z3.If(rd_wit, stamp, lr[b])))
            else:
                cons.append(H1["lr"][b] == z3.If(wr_wit, bv(0, CW), lr[b]))
        return cons

    def hb_init(self):
        c = []
        H = self.H[0]
        for a in range(self.T):
            for b in range(self.T):
                c.append(H["vc"][a][b] == 0)
        for i in range(self.NW):
            for b in range(self.T):
                c.append(H["rel"][i][b] == 0)
        c += [H["lw_t"] == 255, H["lw_c"] == 0, z3.Not(H["race"])]
        for b in range(self.T):
            c.append(H["lr"][b] == 0)
        c.append(z3.And(z3.UGE(self.wit, self.dofs), z3.ULT(self.wit, self.cap)))
        return c

    # ---------------------------------------------------------------- predicates
    def at_step(self, k, term):
        """instantiate a term of the template of thread plan[k] at step k"""
        return z3.substitute(term, *self._pairs(k, self.plan[k]))

    def stutter(self, k):
        return self.at_step(k, self.tmpl[self.plan[k]]["stutter"])

    def cycle(self, k, p):
        """steps k..k+p-1 are all taken by thread plan[k] and bring it back to the state it was in: a wait loop of
        period p (p = 1 is a plain spin on one location). None if the plan has no such window."""
        ti = self.plan[k]
        if k + p > self.K or any(self.plan[j] != ti or self.chunk_of[j] != self.chunk_of[k] for j in range(k, k + p)):
            return None
        tm = self.tmpl[ti]
        c = [self.run[j] for j in range(k, k + p)]
        c += [self.W[k][i] == self.W[k + p][i] for i in range(self.NW)]
        c.append(self.pc[k][ti] == self.pc[k + p][ti])
        for r, lm in tm["livemask"].items():
            live = z3.substitute(lm, (tm["pc"], self.pc[k][ti]))
            c.append(z3.Or(z3.Not(live), self.R[k][ti][r] == self.R[k + p][ti][r]))
        for g in ("corrupt", "oob", "spur", "unmounts"):
            c.append(self.F[k][ti][g] == self.F[k + p][ti][g])
        return z3.And(c)

    def own(self, k, ti, j):
        t = self.threads[ti]
        return [self.R[k][ti][t.reg_of[str(t.own_slot(j, f))]] for f in range(5)]

    def all_done(self, k):
        return z3.And([self.pc[k][ti] == TS.DONE for ti in range(self.T)])

    def finished(self, k, ti):
        return z3.UGE(self.pc[k][ti], bv(TS.DONE, 8))

    def run_to_completion_in_last_chunks(self):
        """in the last chunk of each thread the thread keeps running until it has finished"""
        c = []
        last = {}
        for ci, (ti, n) in enumerate(self.chunks):
            last[ti] = ci
        for k in range(self.K):
            ti = self.plan[k]
            if self.chunk_of[k] == last[ti]:
                c.append(z3.Implies(z3.Not(self.finished(k, ti)), self.run[k]))
        return c

    def bad(self, k):
        bads = {}
        ext = []
        for ti, t in enumerate(self.threads):
            F = self.F[k][ti]
            bads["panic_%s" % t.t] = self.pc[k][ti] == TS.PANIC
            bads["unreachable_%s" % t.t] = self.pc[k][ti] == TS.UNREACH
            bads["corrupt_%s" % t.t] = F["corrupt"]
            bads["oob_%s" % t.t] = F["oob"]
            for j in range(t.nown):
                live, lo, hi, _, _ = self.own(k, ti, j)
                ext.append((live, lo, hi))
        outs, ovl = [], []
        for (live, lo, hi) in ext:
            outs.append(z3.And(live, z3.ULT(lo, hi), z3.Or(z3.ULT(lo, bv(self.dofs, 32)), z3.UGT(hi, bv(self.cap, 32)))))
        for a in range(len(ext)):
            for b in range(a + 1, len(ext)):
                (l1, lo1, hi1), (l2, lo2, hi2) = ext[a], ext[b]
                ovl.append(z3.And(l1, l2, z3.ULT(lo1, hi1), z3.ULT(lo2, hi2), z3.ULT(lo1, hi2), z3.ULT(lo2, hi1)))
        bads["out_of_data_area"] = z3.Or(outs) if outs else z3.BoolVal(False)
        bads["overlap"] = z3.Or(ovl) if ovl else z3.BoolVal(False)
        return bads

    def any_bad(self):
        ds = []
        for k in range(self.K + 1):
            ds += list(self.bad(k).values())
        return z3.Or(ds)

    # ---------------------------------------------------------------- solving / decoding
    def solve(self, extra, timeout_s=600):
        tac = z3.Then("simplify", "bit-blast", "sat")
        s = tac.solver()
        s.set("timeout", int(timeout_s * 1000))
        s.add(self.cons)
        s.add(extra)
        t0 = time.time()
        r = s.check()
        dt = time.time() - t0
        m = s.model() if r == z3.sat else None
        return str(r), m, dt, s

    def decode(self, m):
        steps = []
        for k in range(self.K):
            if not z3.is_true(m.eval(self.run[k], model_completion=True)):
                continue
            sc = self.plan[k]
            t = self.threads[sc]
            pcv = m.eval(self.pc[k][sc], model_completion=True).as_long()
            p = t.by_id.get(pcv)
            ent = {"k": k, "thread": sc, "tname": t.t, "point": pcv, "desc": p.desc if p else "?"}
            if p and p.op["kind"] in ATOMIC_KINDS:
                a = self._as64(p.op["args"][0])
                a = z3.substitute(a, *self.reg_pairs(sc, self.R[k][sc]))
                addr = m.eval(a, model_completion=True).as_long()
                ent["addr"] = addr
                wi = min(addr // 8, self.NW - 1)
                ent["word_before"] = m.eval(self.W[k][wi], model_completion=True).as_long()
                ent["word_after"] = m.eval(self.W[k + 1][wi], model_completion=True).as_long()
                ent["kind"] = p.op["kind"]
                if "compare" in p.op["kind"]:
                    ent["ok"] = z3.is_true(m.eval(self.res_ok[k], model_completion=True))
            ent["next_pc"] = m.eval(self.pc[k + 1][sc], model_completion=True).as_long()
            steps.append(ent)
        return steps

    def words(self, m, k):
        return [m.eval(self.W[k][i], model_completion=True).as_long() for i in range(self.NW)]
