"""Exploration of one thread program into a finite guarded transition system whose states are
(visible point, flattened live locals). All terms are over per-thread *template* variables, which
the BMC layer substitutes by step-indexed variables."""
import z3
from . import sym
from .sym import Tup, Enum, MemRef, LocalRef, ObjRef, Closure, Opaque, Unit, UNIT, Frame, bv
from .mir import Unsupported

DONE, PANIC, UNREACH = 250, 251, 252


def flatten(v, prefix=""):
    """-> (shape, [(leafname, term)])"""
    if isinstance(v, z3.BoolRef) or isinstance(v, z3.BitVecRef):
        return ("s", v.sort()), [(prefix, v)]
    if isinstance(v, Tup):
        shapes, leaves = [], []
        for i, f in enumerate(v.f):
            s, l = flatten(f, prefix + "%d." % i)
            shapes.append(s)
            leaves += l
        return ("t", shapes), leaves
    if isinstance(v, Enum) and v.tname == "Ordering" and isinstance(v.discr, int):
        return ("k", v), []  # memory orderings are compile-time constants at every access: kept static (C12 reads them)
    if isinstance(v, Enum):
        d = bv(v.discr, 64) if isinstance(v.discr, int) else v.discr
        vs, leaves = {}, [(prefix + "d", d)]
        for idx, fields in v.variants.items():
            fs = []
            for i, f in enumerate(fields):
                s, l = flatten(f, prefix + "v%d_%d." % (idx, i))
                fs.append(s)
                leaves += l
            vs[idx] = fs
        return ("e", v.tname, vs), leaves
    if isinstance(v, MemRef):
        return ("m",), [(prefix + "a", v.addr)]
    if isinstance(v, tuple) and v and v[0] == "variant":
        raise Unsupported("bare variant payload stored in a local")
    if v is None:
        return ("k", None), []
    return ("k", v), []


def unify(a, b):
    if a == b:
        return a
    if a[0] != b[0]:
        raise Unsupported("local changes kind across paths: %r vs %r" % (a, b))
    if a[0] == "s":
        if a[1] != b[1]:
            raise Unsupported("local changes sort: %r vs %r" % (a, b))
        return a
    if a[0] == "t":
        if len(a[1]) != len(b[1]):
            raise Unsupported("tuple arity differs")
        return ("t", [unify(x, y) for x, y in zip(a[1], b[1])])
    if a[0] == "e":
        vs = dict(a[2])
        for idx, fs in b[2].items():
            if idx in vs:
                vs[idx] = [unify(x, y) for x, y in zip(vs[idx], fs)]
            else:
                vs[idx] = fs
        return ("e", a[1], vs)
    if a[0] == "m":
        return a
    if a[0] == "k":
        if repr(a[1]) != repr(b[1]):
            raise Unsupported("static value differs across paths: %r vs %r" % (a[1], b[1]))
        return a
    raise Unsupported("shape " + repr(a))


def shape_leaves(shape, prefix=""):
    """[(leafname, sort)]"""
    k = shape[0]
    if k == "s":
        return [(prefix, shape[1])]
    if k == "t":
        out = []
        for i, s in enumerate(shape[1]):
            out += shape_leaves(s, prefix + "%d." % i)
        return out
    if k == "e":
        out = [(prefix + "d", z3.BitVecSort(64))]
        for idx, fs in shape[2].items():
            for i, s in enumerate(fs):
                out += shape_leaves(s, prefix + "v%d_%d." % (idx, i))
        return out
    if k == "m":
        return [(prefix + "a", z3.BitVecSort(64))]
    return []


def rebuild(shape, getleaf, prefix=""):
    k = shape[0]
    if k == "s":
        return getleaf(prefix, shape[1])
    if k == "t":
        return Tup([rebuild(s, getleaf, prefix + "%d." % i) for i, s in enumerate(shape[1])])
    if k == "e":
        vs = {}
        for idx, fs in shape[2].items():
            vs[idx] = [rebuild(s, getleaf, prefix + "v%d_%d." % (idx, i)) for i, s in enumerate(fs)]
        return Enum(shape[1], getleaf(prefix + "d", z3.BitVecSort(64)), vs)
    if k == "m":
        return MemRef(getleaf(prefix + "a", z3.BitVecSort(64)))
    return shape[1]


class Point:
    def __init__(self, pid, key):
        self.id, self.key = pid, key
        self.frames = None  # [(fn_name, fid, bb, ret_dest, ret_target)]
        self.locals = {}  # fid -> set(local)
        self.op = None
        self.desc = ""


class Trans:
    def __init__(self, src, guard, updates, dst, info):
        self.src, self.guard, self.updates, self.dst, self.info = src, guard, updates, dst, info


class ThreadTS:
    def __init__(self, tname, ex, entry_fn, args, nown=1, init_owned=None):
        """args: list of values for _1.._n of entry_fn; z3 consts among them become free 'arg' slots.
        init_owned: {slot: (off32, size32)} ranges the thread holds at the start."""
        self.nown = nown
        self.init_owned = init_owned or {}
        self.t = tname
        self.ex = ex
        self.entry_fn = ex.p.fn(entry_fn)
        self.args = args
        self.points = {}
        self.by_id = {}
        self.shapes = {}  # (fid, local) -> shape
        self.trans = []
        self.fids = {}
        self.RES_VAL = z3.BitVec("%s!RES_VAL" % tname, 64)
        self.RES_OK = z3.Bool("%s!RES_OK" % tname)
        self.tvars = {}
        self.const_names = set()
        self.panics = []

    def fid_name(self, fid):
        if fid not in self.fids:
            self.fids[fid] = "f%d" % len(self.fids)
        return self.fids[fid]

    def slot(self, fid, local, leaf, sort):
        name = "%s!%s_%d_%s" % (self.t, self.fid_name(fid), local, leaf)
        if name not in self.tvars:
            self.tvars[name] = z3.Const(name, sort)
        return self.tvars[name]

    def point(self, key):
        if key not in self.points:
            p = Point(len(self.points), key)
            self.points[key] = p
            self.by_id[p.id] = p
        return self.points[key]

    def register(self, p, stack):
        """merge the arriving stack's shapes into the slot table; returns True if anything grew"""
        changed = False
        frames = [(f.fn.name, f.fid, f.bb, f.ret_dest, f.ret_target, f.gen) for f in stack]
        if p.frames is None:
            p.frames = frames
            changed = True
        for f in stack:
            ls = p.locals.setdefault(f.fid, set())
            for loc, v in f.locals.items():
                sh, _ = flatten(v)
                k = (f.fid, loc)
                if k in self.shapes:
                    u = unify(self.shapes[k], sh)
                    if u != self.shapes[k]:
                        self.shapes[k] = u
                        changed = True
                else:
                    self.shapes[k] = sh
                    changed = True
                if loc not in ls:
                    ls.add(loc)
                    changed = True
        return changed

    def template_stack(self, p):
        stk = []
        for (fn_name, fid, bb, rd, rt, gen) in p.frames:
            fr = Frame(self.ex.p.fn(fn_name), fid, {}, rd, rt, gen=gen)
            fr.bb = bb
            for loc in p.locals.get(fid, ()):
                sh = self.shapes[(fid, loc)]
                fr.locals[loc] = rebuild(sh, lambda leaf, sort, fid=fid, loc=loc: self.slot(fid, loc, leaf, sort))
            stk.append(fr)
        return stk

    def updates_of(self, stack):
        ups = {}
        for f in stack:
            for loc, v in f.locals.items():
                _, leaves = flatten(v)
                sh = self.shapes[(f.fid, loc)]
                sorts = dict(shape_leaves(sh))
                for leaf, term in leaves:
                    tv = self.slot(f.fid, loc, leaf, sorts.get(leaf, term.sort()))
                    if not term.eq(tv):
                        ups[tv] = term
        return ups

    def result_value(self, info):
        k = info["kind"]
        if k in ("load", "fetch_add", "fetch_sub"):
            w = info["width"]
            return self.RES_VAL if w == 64 else z3.Extract(w - 1, 0, self.RES_VAL)
        if k in ("compare_exchange", "compare_exchange_weak"):
            w = info["width"]
            old = self.RES_VAL if w == 64 else z3.Extract(w - 1, 0, self.RES_VAL)
            return Enum("Result", z3.If(self.RES_OK, bv(0, 64), bv(1, 64)), {0: [old], 1: [old]})
        if k == "client::check":
            return self.RES_OK
        return UNIT

    def explore(self):
        start = self.point(("start",))
        for _round in range(12):
            changed = False
            self.trans = []
            self.panics = []
            done = set()
            work = [start]
            while work:
                p = work.pop()
                if p.id in done:
                    continue
                done.add(p.id)
                if p is start:
                    fr = Frame(self.entry_fn, ("T",), {})
                    for i, a in enumerate(self.args):
                        fr.locals[i + 1] = a
                    for j in range(self.nown):
                        if j in self.init_owned:
                            o, sz = self.init_owned[j]
                            fr.locals[sym.OWN_BASE + j] = Tup([z3.BoolVal(True), o, o + sz, o, o + sz])
                        else:
                            z = bv(0, 32)
                            fr.locals[sym.OWN_BASE + j] = Tup([z3.BoolVal(False), z, z, z, z])
                    ends = self.ex.run([fr], [])
                    p.op = {"kind": "nop"}
                    p.desc = "start"
                else:
                    stk = self.template_stack(p)
                    fr = stk[-1]
                    t = fr.fn.blocks[fr.bb].term
                    r = self.ex.call(stk, fr, t, [])
                    if r is None or r[0] != "visible":
                        raise Unsupported("point is not a visible call: " + t.text)
                    info = r[1]
                    p.op = info
                    p.desc = "%s @ %s bb%d" % (info["kind"], fr.fn.name.split("::")[-1], fr.bb)
                    ends = self.ex.run(stk, [], first_resume=(info["dest"], self.result_value(info), info["target"]))
                for e in ends:
                    g = z3.simplify(e.guard)
                    if z3.is_false(g):
                        continue
                    if e.kind == "visible":
                        q = self.point(e.point_key)
                        if self.register(q, e.stack):
                            changed = True
                        self.trans.append(Trans(p.id, g, self.updates_of(e.stack), q.id, None))
                        work.append(q)
                    elif e.kind == "done":
                        self.trans.append(Trans(p.id, g, {}, DONE, None))
                    elif e.kind == "panic":
                        self.trans.append(Trans(p.id, g, {}, PANIC, e.info))
                        self.panics.append(e.info)
                    elif e.kind == "unreachable":
                        self.trans.append(Trans(p.id, g, {}, UNREACH, e.info))
            if not changed:
                self.analyse()
                return self
        raise Unsupported("slot shapes did not stabilise")

    # ------------------------------------------------------------------ liveness + register allocation
    def own_slot(self, j, field):
        """template variable of bookkeeping field (0 live, 1 lo, 2 hi, 3 plo, 4 phi) of own-slot j"""
        sort = z3.BoolSort() if field == 0 else z3.BitVecSort(32)
        return self.slot(("T",), sym.OWN_BASE + j, "%d." % field, sort)

    def analyse(self):
        consts = set(str(a) for a in getattr(self, "arg_names", []))
        tv_by_name = self.tvars
        cache = {}

        def vars_of(term):
            key = term.get_id()
            if key in cache:
                return cache[key]
            out = set()
            seen = set()
            stack = [term]
            while stack:
                t = stack.pop()
                i = t.get_id()
                if i in seen:
                    continue
                seen.add(i)
                if z3.is_const(t) and t.decl().kind() == z3.Z3_OP_UNINTERPRETED:
                    n = str(t)
                    if n in tv_by_name and n not in self.const_names:
                        out.add(n)
                else:
                    stack.extend(t.children())
            cache[key] = out
            return out

        def vals_vars(v):
            out = set()
            _, leaves = flatten(v)
            for _, term in leaves:
                out |= vars_of(term)
            return out

        always = set()
        for j in range(self.nown):
            for f in range(5):
                always.add(str(self.own_slot(j, f)))
        use_op = {}
        for p in self.by_id.values():
            u = set()
            if p.op and p.op.get("args"):
                for a in p.op["args"]:
                    u |= vals_vars(a)
            use_op[p.id] = u | always
        live = {pid: set(u) for pid, u in use_op.items()}
        out_tr = {}
        for tr in self.trans:
            out_tr.setdefault(tr.src, []).append(tr)
        changed = True
        while changed:
            changed = False
            for pid in live:
                acc = set(use_op[pid])
                for tr in out_tr.get(pid, ()):
                    acc |= vars_of(tr.guard)
                    ups = {str(k): v for k, v in tr.updates.items()}
                    dst_live = live.get(tr.dst, always if tr.dst >= DONE else set())
                    for sname in dst_live:
                        if sname in ups:
                            acc |= vars_of(ups[sname])
                        else:
                            acc.add(sname)
                if acc != live[pid]:
                    live[pid] = acc
                    changed = True
        self.live = live
        self.always_live = always
        # interference graph + greedy colouring per sort: every slot keeps one register for its whole life
        names = sorted(set().union(*live.values())) if live else []
        inter = {n: set() for n in names}
        for pid, L in live.items():
            for a in L:
                inter[a] |= L
        # a slot written by a transition while another slot is live at the destination interferes with it
        for tr in self.trans:
            dst_live = live.get(tr.dst, always if tr.dst >= DONE else set())
            for k in tr.updates:
                n = str(k)
                if n in inter and n in dst_live:
                    inter[n] |= dst_live
        # copy coalescing: slots related by a plain move (callee local <- caller local, ...) share a
        # register when their lifetimes do not interfere, so that the move disappears from the step relation
        parent = {n: n for n in names}

        def find(x):
            while parent[x] != x:
                parent[x] = parent[parent[x]]
                x = parent[x]
            return x

        members = {n: {n} for n in names}
        cinter = {n: set(inter[n]) - {n} for n in names}
        copies = []
        for tr in self.trans:
            dst_live = live.get(tr.dst, always if tr.dst >= DONE else set())
            for k, term in tr.updates.items():
                n = str(k)
                if n in dst_live and z3.is_const(term) and term.decl().kind() == z3.Z3_OP_UNINTERPRETED:
                    m = str(term)
                    if m in parent and n in parent and m != n and tv_by_name[m].sort() == tv_by_name[n].sort():
                        copies.append((n, m))
        for (a, b) in copies:
            ra, rb = find(a), find(b)
            if ra == rb:
                continue
            if members[ra] & cinter[rb] or members[rb] & cinter[ra]:
                continue
            parent[rb] = ra
            members[ra] |= members[rb]
            cinter[ra] |= cinter[rb]
        self.reg_of = {}
        self.regs = {}  # sort key -> count
        roots = sorted(set(find(n) for n in names), key=lambda r: -len(cinter[r]))
        class_reg = {}
        for r in roots:
            sk = str(tv_by_name[r].sort())
            used = set()
            for m in cinter[r]:
                rm = find(m)
                if rm in class_reg and class_reg[rm][0] == sk:
                    used.add(class_reg[rm][1])
            i = 0
            while i in used:
                i += 1
            class_reg[r] = (sk, i)
            self.regs[sk] = max(self.regs.get(sk, 0), i + 1)
        for n in names:
            self.reg_of[n] = class_reg[find(n)]
        self.sort_of = {str(tv_by_name[n].sort()): tv_by_name[n].sort() for n in names}
        return self
