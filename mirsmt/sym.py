"""Symbolic execution of MIR between visible (shared-memory) operations, and exploration of a
thread program into a finite guarded transition system over template variables."""
import re, z3
from . import mir
from .mir import Unsupported

# ------------------------------------------------------------------ values
class Unit:
    def __repr__(self):
        return "()"


UNIT = Unit()


class Tup:
    def __init__(self, fields):
        self.f = list(fields)

    def __repr__(self):
        return "Tup%s" % (self.f,)


class Enum:
    """discr: python int or z3 BV64; variants: {idx: [fields]}; tname: type family for variant names"""

    def __init__(self, tname, discr, variants):
        self.tname, self.discr, self.variants = tname, discr, variants

    def __repr__(self):
        return "Enum(%s,%s,%s)" % (self.tname, self.discr, self.variants)


class MemRef:
    def __init__(self, addr):
        self.addr = addr  # z3 BV64

    def __repr__(self):
        return "MemRef(%s)" % self.addr


class LocalRef:
    def __init__(self, fid, local, proj):
        self.fid, self.local, self.proj = fid, local, list(proj)

    def __repr__(self):
        return "LocalRef(%s,_%d,%s)" % (self.fid, self.local, self.proj)


class ObjRef:
    def __init__(self, name, proj=()):
        self.name, self.proj = name, list(proj)

    def __repr__(self):
        return "ObjRef(%s,%s)" % (self.name, self.proj)


class Closure:
    def __init__(self, loc, caps=None):
        self.loc = loc
        self.f = list(caps or [])

    def __repr__(self):
        return "Closure(%s)" % self.loc


class Opaque:
    def __init__(self, tag):
        self.tag = tag

    def __repr__(self):
        return "Opaque(%s)" % self.tag


def bv(v, w):
    return z3.BitVecVal(v, w)


INT_W = {"u8": 8, "u16": 16, "u32": 32, "u64": 64, "u128": 128, "usize": 64,
         "i8": 8, "i16": 16, "i32": 32, "i64": 64, "i128": 128, "isize": 64}
SIGNED = {"i8", "i16", "i32", "i64", "i128", "isize"}

ENUM_VARIANTS = {
    "Option": ["None", "Some"],
    "Result": ["Ok", "Err"],
    "Either": ["Left", "Right"],
    "ControlFlow": ["Continue", "Break"],
    "Ordering": ["Relaxed", "Release", "Acquire", "AcqRel", "SeqCst"],
}


def tfamily(path):
    """'Result::<Meta, error::Error>::Err' -> ('Result', 'Err');  'error::Error::ReadOnly' -> ('Error','ReadOnly')"""
    p = re.sub(r"::<.*?>(?=::|$)", "", strip_generics(path))
    segs = p.split("::")
    return segs


def strip_generics(s):
    out, depth = [], 0
    i = 0
    while i < len(s):
        c = s[i]
        if c == "<":
            depth += 1
        elif c == ">" and not (i > 0 and s[i - 1] in "-="):
            depth -= 1
            i += 1
            continue
        if depth == 0:
            out.append(c)
        i += 1
    r = "".join(out)
    return r.replace("::::", "::").rstrip(":")


# ------------------------------------------------------------------ program database
class Program:
    def __init__(self, mir_text, src_dir, extra_fns=None):
        self.raw = {}
        # skip CTFE duplicates: keep the first (runtime) body
        text = re.sub(r"// MIR FOR CTFE\nfn .*?^\}\n", "", mir_text, flags=re.S | re.M)
        self.raw = mir.parse_functions(text)
        if extra_fns:
            self.raw.update(mir.parse_functions(extra_fns))
        self.fns = {}
        self.src_dir = src_dir
        self.enums = dict(ENUM_VARIANTS)
        self.structs = {}
        self._scan_sources()
        self.closures = {}
        for n, r in self.raw.items():
            if r[0] == "const":
                continue
            m = re.search(r"_1: &?(?:mut )?(\{closure@[^}]*\})", r[0])
            if m and "{closure#" in n:
                self.closures[m.group(1)] = n
        self.consts = {}

    def _scan_sources(self):
        import os
        for root, _, files in os.walk(self.src_dir):
            for f in files:
                if not f.endswith(".rs"):
                    continue
                s = open(os.path.join(root, f)).read()
                s = re.sub(r"//[^\n]*", "", s)
                s = re.sub(r"#\[[^\]]*\]", "", s)
                for m in re.finditer(r"\benum\s+([A-Za-z0-9_]+)(?:<[^>{]*>)?\s*\{(.*?)\n\}", s, re.S):
                    body = m.group(2)
                    vs = []
                    depth = 0
                    cur = ""
                    for ch in body:
                        if ch in "({<[":
                            depth += 1
                        elif ch in ")}>]":
                            depth -= 1
                        if ch == "," and depth == 0:
                            vs.append(cur)
                            cur = ""
                        else:
                            cur += ch
                    if cur.strip():
                        vs.append(cur)
                    names = []
                    for v in vs:
                        mm = re.match(r"\s*([A-Za-z0-9_]+)", v)
                        if mm:
                            names.append(mm.group(1))
                    if names:
                        self.enums.setdefault(m.group(1), names)
                for m in re.finditer(r"\bstruct\s+([A-Za-z0-9_]+)(?:<[^>{]*>)?\s*\{(.*?)\n\s*\}", s, re.S):
                    fields = re.findall(r"(?:pub(?:\([a-z]+\))?\s+)?([a-z_][A-Za-z0-9_]*)\s*:", m.group(2))
                    key = (os.path.basename(f)[:-3], m.group(1))
                    self.structs[key] = fields

    def fn(self, name):
        if name not in self.fns:
            if name not in self.raw:
                raise Unsupported("no MIR for " + name)
            self.fns[name] = mir.build_fn(name, self.raw[name])
        return self.fns[name]

    def resolve(self, callee, nargs):
        """call-site path -> definition name in the dump, or None if not a crate function"""
        if callee in self.raw:
            return callee
        c = strip_generics(callee)
        if c in self.raw:
            return c
        mt = re.fullmatch(r"<(.+) as (.+)>::([A-Za-z0-9_]+)", callee)
        method = None
        selfty = None
        trait = None
        if mt:
            selfty, trait, method = strip_generics(mt.group(1)), strip_generics(mt.group(2)), mt.group(3)
        else:
            segs = c.split("::")
            method = segs[-1]
            selfty = "::".join(segs[:-1])
        if not selfty:
            return None
        module = selfty.split("::")[0] if "::" in selfty else ""
        tyname = selfty.split("::")[-1]
        cands = []
        for n, r in self.raw.items():
            if r[0] == "const" or not n.endswith("::" + method) or "<impl at " not in n:
                continue
            if module and not n.startswith(module + "::<impl at"):
                continue
            if not module and not n.startswith("<impl at"):
                continue
            cands.append(n)
        if len(cands) > 1:
            # disambiguate by the self type in the first argument
            c2 = [n for n in cands if re.search(r"_1: [&*]?(?:mut |const )?(?:[a-z_]+::)*%s\b" % re.escape(tyname), self.raw[n][0])]
            if c2:
                cands = c2
        if len(cands) > 1:
            c3 = [n for n in cands if len(mir.split_top(self.raw[n][0][self.raw[n][2] + 1: mir.match_paren(self.raw[n][0], self.raw[n][2])])) == nargs]
            if c3:
                cands = c3
        if len(cands) == 1:
            return cands[0]
        if len(cands) > 1:
            raise Unsupported("ambiguous callee %s -> %s" % (callee, cands))
        if trait:
            d = trait + "::" + method
            if d in self.raw:
                return d
        return None


# ------------------------------------------------------------------ frames / store
class Frame:
    def __init__(self, fn, fid, locals_=None, ret_dest=None, ret_target=None, caller_bb=None, gen=None):
        self.fn, self.fid = fn, fid
        self.gen = gen or []
        self.locals = locals_ if locals_ is not None else {}
        self.ret_dest, self.ret_target = ret_dest, ret_target
        self.bb = 0

    def clone(self):
        f = Frame(self.fn, self.fid, dict(self.locals), self.ret_dest, self.ret_target, gen=self.gen)
        f.bb = self.bb
        if getattr(self, "pure_stop", False):
            f.pure_stop = True
        if getattr(self, "ret_wrap", None) is not None:
            f.ret_wrap = self.ret_wrap
        return f


class PathEnd:
    def __init__(self, kind, guard, stack, point_key=None, info=None):
        self.kind, self.guard, self.stack, self.point_key, self.info = kind, guard, stack, point_key, info


OWN_BASE = 9000

VISIBLE_ATOMIC = {"load", "store", "compare_exchange", "compare_exchange_weak", "fetch_add", "fetch_sub"}


class Executor:
    """Runs MIR from a given stack until the next visible op / end, forking on symbolic branches."""

    def __init__(self, prog, objects, cfg):
        self.p = prog
        self.objects = objects  # name -> Tup of field values
        self.cfg = cfg
        self.max_paths = 4000

    # ---- constants
    def const(self, text, hint_ty=None):
        t = text.strip()
        m = re.fullmatch(r"(-?\d+)_([a-z0-9]+)", t)
        if m:
            return bv(int(m.group(1)), INT_W[m.group(2)])
        if t == "true":
            return z3.BoolVal(True)
        if t == "false":
            return z3.BoolVal(False)
        if t == "()":
            return UNIT
        m = re.fullmatch(r"core::num::<impl ([a-z0-9]+)>::(MAX|MIN)", t)
        if m:
            w = INT_W[m.group(1)]
            signed = m.group(1) in SIGNED
            if m.group(2) == "MAX":
                return bv((1 << (w - 1)) - 1 if signed else (1 << w) - 1, w)
            return bv(-(1 << (w - 1)) if signed else 0, w)
        if t.startswith("ZeroSized: "):
            ty = t[len("ZeroSized: "):]
            if ty.startswith("{closure@"):
                return Closure(ty)
            return Opaque("zst:" + ty)
        if t.startswith('"'):
            return Opaque("str")
        m = re.fullmatch(r"<(.*) as SizedTypeProperties>::(SIZE|ALIGN)", t)
        if m or "size_of" in t:
            raise Unsupported("generic layout constant: " + t)
        # named constant with its own MIR body / literal definition
        for cand in ("const " + t, "const " + t.split("::")[-1]):
            if cand in self.p.raw:
                if cand not in self.p.consts:
                    fn = self.p.fn(cand)
                    ends = self.run([Frame(fn, ("const", cand))], [], stop_at_return=True)
                    if len(ends) != 1:
                        raise Unsupported("const eval forked: " + t)
                    self.p.consts[cand] = ends[0].info
                return self.p.consts[cand]
        m = re.search(r"^const (?:[a-z_]+::)*%s: [a-z0-9]+ = const (\S+);" % re.escape(t.split("::")[-1]), self.cfg["mir_text"], re.M)
        if m:
            return self.const(m.group(1))
        raise Unsupported("constant: " + t)

    # ---- places
    def _frame(self, stack, fid):
        for f in stack:
            if f.fid == fid:
                return f
        raise Unsupported("dangling local reference into frame %s" % (fid,))

    def read_place(self, stack, frame, place):
        if place.local not in frame.locals:
            raise Unsupported("read of unassigned local _%d in %s" % (place.local, frame.fn.name))
        v = frame.locals[place.local]
        return self._project(stack, v, place.proj)

    def _project(self, stack, v, proj):
        for p in proj:
            if p[0] == "deref":
                if isinstance(v, LocalRef):
                    fr = self._frame(stack, v.fid)
                    v = self._project(stack, fr.locals[v.local], v.proj)
                elif isinstance(v, ObjRef):
                    v = self._project(stack, self.objects[v.name], v.proj)
                elif isinstance(v, MemRef):
                    raise Unsupported("non-atomic read through a pointer into arena memory")
                else:
                    raise Unsupported("deref of %r" % (v,))
            elif p[0] == "field":
                if isinstance(v, Tup):
                    v = v.f[p[1]]
                elif isinstance(v, Closure):
                    v = v.f[p[1]]
                elif isinstance(v, (ObjRef, MemRef)) and p[1] == 0:
                    pass  # the pointer field of a transparent pointer wrapper (NonNull, Box, Unique): the pointer itself
                elif isinstance(v, Enum):
                    raise Unsupported("field of enum without downcast")
                elif isinstance(v, tuple) and v[0] == "variant":
                    v = v[1][p[1]]
                else:
                    raise Unsupported("field %d of %r" % (p[1], v))
            elif p[0] == "downcast":
                if not isinstance(v, Enum):
                    raise Unsupported("downcast of %r" % (v,))
                idx = self.variant_index(v.tname, p[1])
                if idx not in v.variants:
                    raise Unsupported("downcast to variant %s not carried by value %r" % (p[1], v))
                v = ("variant", v.variants[idx])
        return v

    def variant_index(self, tname, vname):
        if tname in self.p.enums and vname in self.p.enums[tname]:
            return self.p.enums[tname].index(vname)
        for t, vs in self.p.enums.items():
            if vname in vs and t == tname:
                return vs.index(vname)
        raise Unsupported("unknown variant %s::%s" % (tname, vname))

    def write_place(self, stack, frame, place, val):
        if not place.proj:
            frame.locals[place.local] = val
            return
        # resolve through leading deref of a local reference
        base_frame, base_local, proj = frame, place.local, list(place.proj)
        cur = frame.locals.get(place.local)
        while proj and proj[0][0] == "deref":
            if isinstance(cur, LocalRef):
                base_frame = self._frame(stack, cur.fid)
                base_local = cur.local
                proj = list(cur.proj) + proj[1:]
                cur = base_frame.locals.get(base_local)
                break
            raise Unsupported("write through %r" % (cur,))
        root = base_frame.locals.get(base_local)
        base_frame.locals[base_local] = self._write_into(root, proj, val)

    def _write_into(self, root, proj, val):
        if not proj:
            return val
        p = proj[0]
        if p[0] == "field" and isinstance(root, Tup):
            f = list(root.f)
            f[p[1]] = self._write_into(f[p[1]], proj[1:], val)
            return Tup(f)
        raise Unsupported("write projection %s into %r" % (p, root))

    def ref_place(self, stack, frame, place):
        """value of &PLACE"""
        proj = list(place.proj)
        base = frame.locals.get(place.local)
        if not proj:
            return LocalRef(frame.fid, place.local, [])
        # find last deref: everything before it evaluates to a pointer value
        last = max((i for i, p in enumerate(proj) if p[0] == "deref"), default=None)
        if last is None:
            return LocalRef(frame.fid, place.local, proj)
        ptr = self._project(stack, base, proj[:last])
        rest = proj[last + 1:]
        if isinstance(ptr, LocalRef):
            return LocalRef(ptr.fid, ptr.local, ptr.proj + rest)
        if isinstance(ptr, ObjRef):
            return ObjRef(ptr.name, ptr.proj + rest)
        if isinstance(ptr, MemRef):
            off = 0
            for p in rest:
                if p[0] != "field":
                    raise Unsupported("projection %s of a memory reference" % (p,))
                off += self.field_offset(p)
            return MemRef(ptr.addr + bv(off, 64))
        raise Unsupported("reference through %r" % (ptr,))

    def field_offset(self, p):
        """byte offset of field projection p=('field', idx, ty) inside a repr(C)/transparent struct in memory"""
        idx, ty = p[1], p[2]
        lay = self.cfg["mem_layouts"]
        key = (idx, ty.replace("core::sync::atomic::", ""))
        for (i, t), off in lay.items():
            if i == idx and t == key[1]:
                return off
        raise Unsupported("memory field layout unknown: .%d: %s" % (idx, ty))

    # ---- operands / rvalues
    def operand(self, stack, frame, op):
        if op.kind == "const":
            return self.const(op.const)
        return self.read_place(stack, frame, op.place)

    def width_of(self, ty):
        ty = ty.strip()
        if ty in INT_W:
            return INT_W[ty]
        return None

    def cast(self, v, ty, kind, srcsigned=False):
        ty = ty.strip()
        if kind in ("PtrToPtr", "Transmute", "MutToConstPointer") or kind.startswith("PointerCoercion"):
            return v
        if kind == "IntToInt":
            w = self.width_of(ty)
            if w is None:
                raise Unsupported("cast to " + ty)
            if isinstance(v, z3.BoolRef):
                return z3.If(v, bv(1, w), bv(0, w))
            sw = v.size()
            if w == sw:
                return v
            if w < sw:
                return z3.Extract(w - 1, 0, v)
            return z3.SignExt(w - sw, v) if srcsigned else z3.ZeroExt(w - sw, v)
        if kind == "PointerExposeProvenance" or kind == "PointerWithExposedProvenance":
            raise Unsupported("pointer/int cast")
        raise Unsupported("cast kind " + kind)

    def local_type(self, frame, place):
        if place.proj:
            last = place.proj[-1]
            if last[0] == "field":
                return last[2]
            return None
        return frame.fn.local_types.get(place.local) or frame.fn.arg_types.get(place.local)

    def op_type(self, frame, op):
        if op.kind == "const":
            m = re.fullmatch(r"-?\d+_([a-z0-9]+)", op.const.strip())
            return m.group(1) if m else None
        return self.local_type(frame, op.place)

    def binop(self, name, a, b, signed):
        if name in ("Eq", "Ne"):
            if isinstance(a, z3.BoolRef) or isinstance(a, z3.BitVecRef):
                r = a == b
            elif isinstance(a, MemRef) and isinstance(b, MemRef):
                r = a.addr == b.addr
            else:
                raise Unsupported("Eq on %r" % (a,))
            return r if name == "Eq" else z3.Not(r)
        if name in ("Lt", "Le", "Gt", "Ge"):
            f = {("Lt", False): z3.ULT, ("Le", False): z3.ULE, ("Gt", False): z3.UGT, ("Ge", False): z3.UGE}
            if signed:
                return {"Lt": a < b, "Le": a <= b, "Gt": a > b, "Ge": a >= b}[name]
            return f[(name, False)](a, b)
        if name in ("Add", "AddUnchecked"):
            return a + b
        if name in ("Sub", "SubUnchecked"):
            return a - b
        if name in ("Mul", "MulUnchecked"):
            return a * b
        if name == "BitAnd":
            return z3.And(a, b) if isinstance(a, z3.BoolRef) else a & b
        if name == "BitOr":
            return z3.Or(a, b) if isinstance(a, z3.BoolRef) else a | b
        if name == "BitXor":
            return z3.Xor(a, b) if isinstance(a, z3.BoolRef) else a ^ b
        if name in ("Shl", "ShlUnchecked", "Shr", "ShrUnchecked"):
            w = a.size()
            sb = b
            if sb.size() < w:
                sb = z3.ZeroExt(w - sb.size(), sb)
            elif sb.size() > w:
                sb = z3.Extract(w - 1, 0, sb)
            if name.startswith("Shl"):
                return a << sb
            return (a >> sb) if signed else z3.LShR(a, sb)
        if name in ("AddWithOverflow", "SubWithOverflow", "MulWithOverflow"):
            w = a.size()
            if name == "AddWithOverflow":
                r = a + b
                if signed:
                    ov = z3.Not(z3.BVAddNoOverflow(a, b, True)) if False else z3.Or(z3.And(a >= 0, b >= 0, r < 0), z3.And(a < 0, b < 0, r >= 0))
                else:
                    ov = z3.ULT(r, a)
            elif name == "SubWithOverflow":
                r = a - b
                if signed:
                    ov = z3.Or(z3.And(a >= 0, b < 0, r < 0), z3.And(a < 0, b >= 0, r >= 0))
                else:
                    ov = z3.ULT(a, b)
            else:
                r = a * b
                wide = z3.ZeroExt(w, a) * z3.ZeroExt(w, b)
                ov = z3.Extract(2 * w - 1, w, wide) != 0
                if signed:
                    raise Unsupported("signed MulWithOverflow")
            return Tup([r, ov])
        if name == "Offset":
            if isinstance(a, MemRef):
                return MemRef(a.addr + b)
        raise Unsupported("binop " + name)

    def rvalue(self, stack, frame, rv, dest_place):
        k = rv.kind
        if k == "use":
            return self.operand(stack, frame, rv.args[0])
        if k == "ref":
            return self.ref_place(stack, frame, rv.args[0])
        if k == "binop":
            name, a, b = rv.args
            ty = self.op_type(frame, a) or self.op_type(frame, b) or ""
            va, vb = self.operand(stack, frame, a), self.operand(stack, frame, b)
            return self.binop(name, va, vb, ty.strip() in SIGNED)
        if k == "unop":
            name, a = rv.args
            va = self.operand(stack, frame, a)
            if name == "Not":
                return z3.Not(va) if isinstance(va, z3.BoolRef) else ~va
            if name == "Neg":
                return -va
            raise Unsupported("unop " + name)
        if k == "cast":
            op, ty, kind = rv.args
            st = (self.op_type(frame, op) or "").strip()
            return self.cast(self.operand(stack, frame, op), ty, kind, st in SIGNED)
        if k == "discriminant":
            v = self.read_place(stack, frame, rv.args[0])
            if isinstance(v, Enum):
                d = v.discr
                return bv(d, 64) if isinstance(d, int) else d
            raise Unsupported("discriminant of %r" % (v,))
        if k == "tuple":
            return Tup([self.operand(stack, frame, o) for o in rv.args[0]])
        if k == "closure":
            caps = [self.operand(stack, frame, o) for (_, o) in (rv.args[1] if len(rv.args) > 1 else [])]
            return Closure(rv.args[0], caps)
        if k == "array":
            return Opaque("array")
        if k == "adt":
            path, fields, style = rv.args
            if path.startswith("{closure@"):
                return Closure(path)
            segs = tfamily(path)
            vals = [self.operand(stack, frame, o) for (_, o) in fields]
            # enum variant?
            if len(segs) >= 2 and segs[-2] in self.p.enums and segs[-1] in self.p.enums[segs[-2]]:
                idx = self.p.enums[segs[-2]].index(segs[-1])
                return Enum(segs[-2], idx, {idx: vals})
            # struct
            tname = segs[-1]
            if style == "named":
                for (mod, sn), fl in self.p.structs.items():
                    if sn == tname and (len(segs) < 2 or segs[-2] == mod or len(segs) == 1):
                        if set(fl) == set(n for n, _ in fields):
                            order = {n: i for i, n in enumerate(fl)}
                            out = [None] * len(fl)
                            for (n, _), v in zip(fields, vals):
                                out[order[n]] = v
                            return Tup(out)
                return Tup(vals)
            return Tup(vals)
        raise Unsupported("rvalue kind " + k)

    # ---- running
    def run(self, stack, conds, stop_at_return=False, first_resume=None):
        """DFS over local paths. `stack`: list[Frame] (top = last), already positioned (frame.bb).
        `first_resume`: (dest Place, value, target bb) result of the visible op to bind first."""
        ends = []
        work = [([f.clone() for f in stack], list(conds), first_resume)]
        npaths = 0
        while work:
            stk, cnd, resume = work.pop()
            npaths += 1
            if npaths > self.max_paths:
                raise Unsupported("local path explosion")
            fr = stk[-1]
            if resume is not None:
                dest, val, target = resume
                if dest is not None:
                    self.write_place(stk, fr, dest, val)
                fr.bb = target
            steps = 0
            while True:
                steps += 1
                if steps > 20000:
                    raise Unsupported("local loop without a visible operation in " + fr.fn.name)
                fr = stk[-1]
                blk = fr.fn.blocks[fr.bb]
                for st in blk.stmts:
                    self.write_place(stk, fr, st.place, self.rvalue(stk, fr, st.rv, st.place))
                t = blk.term
                if t is None:
                    raise Unsupported("block without terminator in " + fr.fn.name)
                if t.kind == "goto":
                    fr.bb = t.a["target"]
                    continue
                if t.kind == "switch":
                    v = self.operand(stk, fr, t.a["op"])
                    if isinstance(v, z3.BoolRef):
                        v = z3.If(v, bv(1, 8), bv(0, 8))
                    v = z3.simplify(v)
                    if z3.is_bv_value(v):
                        c = v.as_long()
                        tgt = t.a["otherwise"]
                        for (val, bbn) in t.a["targets"]:
                            if (val % (1 << v.size())) == c:
                                tgt = bbn
                        fr.bb = tgt
                        continue
                    # fork
                    others = []
                    for (val, bbn) in t.a["targets"]:
                        c = v == bv(val, v.size())
                        others.append(c)
                        s2 = [f.clone() for f in stk]
                        s2[-1].bb = bbn
                        work.append((s2, cnd + [c], None))
                    if t.a["otherwise"] is not None and not self._unreachable_block(fr.fn, t.a["otherwise"]):
                        s2 = [f.clone() for f in stk]
                        s2[-1].bb = t.a["otherwise"]
                        work.append((s2, cnd + [z3.Not(z3.Or(others))], None))
                    elif t.a["otherwise"] is not None:
                        ends.append(PathEnd("unreachable", z3.And(cnd + [z3.Not(z3.Or(others))]), stk, info=fr.fn.name))
                    break
                if t.kind == "assert":
                    c = self.operand(stk, fr, t.a["cond"])
                    if t.a["neg"]:
                        c = z3.Not(c)
                    c = z3.simplify(c)
                    if z3.is_true(c):
                        fr.bb = t.a["target"]
                        continue
                    if not z3.is_false(c):
                        s2 = [f.clone() for f in stk]
                        s2[-1].bb = t.a["target"]
                        work.append((s2, cnd + [c], None))
                    ends.append(PathEnd("panic", z3.And(cnd + [z3.Not(c)]), stk, info=t.a["msg"] + " in " + fr.fn.name))
                    break
                if t.kind == "unreachable":
                    ends.append(PathEnd("unreachable", z3.And(cnd) if cnd else z3.BoolVal(True), stk, info=fr.fn.name))
                    break
                if t.kind == "resume":
                    raise Unsupported("resume reached")
                if t.kind == "drop":
                    fr.bb = t.a["target"]
                    continue
                if t.kind == "return":
                    rv = fr.locals.get(0, UNIT)
                    if getattr(fr, "ret_wrap", None) is not None:
                        rv = fr.ret_wrap(rv)
                    if len(stk) == 1 or getattr(fr, "pure_stop", False):
                        ends.append(PathEnd("done", z3.And(cnd) if cnd else z3.BoolVal(True), stk, info=rv))
                        break
                    dest, target = fr.ret_dest, fr.ret_target
                    stk.pop()
                    caller = stk[-1]
                    if dest is not None:
                        self.write_place(stk, caller, dest, rv)
                    if target is None:
                        raise Unsupported("return into diverging call")
                    caller.bb = target
                    continue
                if t.kind == "call":
                    r = self.call(stk, fr, t, cnd)
                    if r is None:
                        continue  # handled inline (pure builtin or frame pushed)
                    if r[0] == "visible":
                        ends.append(PathEnd("visible", z3.And(cnd) if cnd else z3.BoolVal(True), stk, point_key=self.stack_key(stk), info=r[1]))
                        break
                    if r[0] == "panic":
                        ends.append(PathEnd("panic", z3.And(cnd) if cnd else z3.BoolVal(True), stk, info=r[1]))
                        break
                    if r[0] == "fork":
                        for (c, val) in r[1]:
                            s2 = [f.clone() for f in stk]
                            work.append((s2, cnd + [c], (t.a["dest"], val, t.a["target"])))
                        break
                    if r[0] == "forkx":
                        # fork where each branch applies its own action to the cloned stack (e.g. enters a closure body)
                        for (c, act) in r[1]:
                            s2 = [f.clone() for f in stk]
                            act(s2)
                            work.append((s2, cnd + [c], None))
                        break
                raise Unsupported("terminator " + t.kind)
        return ends

    def _unreachable_block(self, fn, bbn):
        b = fn.blocks.get(bbn)
        return b is not None and not b.stmts and b.term is not None and b.term.kind == "unreachable"

    def stack_key(self, stk):
        return tuple((f.fn.name, f.bb) for f in stk)

    # ---- calls
    def call(self, stk, fr, t, cnd):
        func = t.a["func"]
        # instantiate a bare generic parameter of the enclosing (generic) MIR body
        mg = re.match(r"<([A-Z][A-Za-z0-9]*) as ", func)
        if mg and len(fr.gen) == 1:
            func = "<" + fr.gen[0] + func[1 + len(mg.group(1)):]
        mg = re.search(r"::<([A-Z][A-Za-z0-9]*)>$", func)
        if mg and len(fr.gen) == 1 and mg.group(1) not in INT_W:
            func = func[: mg.start()] + "::<" + fr.gen[0] + ">"
        args = [self.operand(stk, fr, a) for a in t.a["args"]]
        dest, target = t.a["dest"], t.a["target"]
        base = strip_generics(func)
        meth = base.split("::")[-1]

        def ret(v):
            if target is None:
                raise Unsupported("diverging builtin " + func)
            if dest is not None:
                self.write_place(stk, fr, dest, v)
            fr.bb = target
            return None

        # ---------------- visible operations
        if base.startswith("Atomic::") and meth in VISIBLE_ATOMIC:
            w = INT_W[re.search(r"Atomic::<([a-z0-9]+)>", func).group(1)]
            return ("visible", {"kind": meth, "width": w, "args": args, "dest": dest, "target": target})
        if meth == "write_bytes" and ("ptr" in base or "intrinsics" in base):
            return ("visible", {"kind": "memset", "args": args, "dest": dest, "target": target})
        if base in ("client::own", "client::release"):
            # bookkeeping of the synthetic client: which ranges this thread currently holds. Thread-local,
            # so not a scheduling point: recorded in pseudo-locals OWN_BASE+slot of the root frame.
            root = stk[0]
            if base == "client::own":
                meta, idx = args
                j = z3.simplify(idx).as_long()
                mo, ms, po, ps = meta.f[1], meta.f[2], meta.f[3], meta.f[4]
                e1, e2 = z3.ZeroExt(1, mo) + z3.ZeroExt(1, ms), z3.ZeroExt(1, po) + z3.ZeroExt(1, ps)
                ulo = z3.If(z3.ULE(mo, po), mo, po)
                uhi33 = z3.If(z3.UGE(e1, e2), e1, e2)
                # an end beyond 2^32 saturates (and is then reported as out of the data area)
                uhi = z3.If(z3.Extract(32, 32, uhi33) == 1, bv(0xFFFFFFFF, 32), z3.Extract(31, 0, uhi33))
                root.locals[OWN_BASE + j] = Tup([z3.BoolVal(True), ulo, uhi, po, po + ps])
            else:
                j = z3.simplify(args[0]).as_long()
                old = root.locals[OWN_BASE + j]
                root.locals[OWN_BASE + j] = Tup([z3.BoolVal(False)] + list(old.f[1:]))
            return ret(UNIT)
        if base.startswith("client::"):
            return ("visible", {"kind": base, "args": args, "dest": dest, "target": target})
        if meth == "unmount" and "Memory" in base:
            return ("visible", {"kind": "unmount", "args": args, "dest": dest, "target": target})
        # ---------------- pure builtins
        if base.startswith("Backoff::"):
            return ret(Opaque("backoff") if meth == "new" else UNIT)
        if meth in ("is_ok", "is_err") and base.startswith("Result::"):
            e = self._project(stk, args[0], [("deref",)]) if isinstance(args[0], (LocalRef,)) else args[0]
            d = e.discr
            if isinstance(d, int):
                return ret(z3.BoolVal((d == 0) == (meth == "is_ok")))
            return ret((d == 0) if meth == "is_ok" else (d != 0))
        if meth == "add" and "ptr" in base:
            p, n = args
            if isinstance(p, MemRef):
                return ret(MemRef(p.addr + n))
            raise Unsupported("ptr::add on %r" % (p,))
        if meth in ("cast", "as_ptr", "as_mut_ptr", "cast_mut", "cast_const") and ("ptr" in base or "NonNull" in base):
            return ret(args[0])
        if meth == "as_ref" and "NonNull" in base:
            v = args[0]
            if isinstance(v, (LocalRef, ObjRef)):
                v = self._project(stk, v, [("deref",)])
            return ret(v)
        if meth == "new_unchecked" and "NonNull" in base:
            return ret(args[0])
        if meth == "from_raw" and base.startswith("Box::"):
            return ret(args[0])
        if base in ("core::mem::size_of", "core::mem::align_of", "core::mem::needs_drop") or meth in ("size_of", "align_of") and "mem" in base:
            m = re.search(r"::<(.*)>$", func)
            ty = m.group(1) if m else "?"
            key = (meth, ty)
            prim = re.fullmatch(r"(?:core::sync::atomic::)?(?:Atomic<)?([a-z0-9]+)>?", ty.strip())
            if meth in ("size_of", "align_of") and prim and prim.group(1) in INT_W:
                return ret(bv(INT_W[prim.group(1)] // 8, 64))
            if meth in ("size_of", "align_of") and ty.strip().endswith("SegmentNode"):
                return ret(bv(8, 64))
            if key in self.cfg["layouts"]:
                return ret(bv(self.cfg["layouts"][key], 64))
            raise Unsupported("layout of %s" % (key,))
        if base in ("<u32 as Ord>::max", "<u32 as Ord>::min") or (meth in ("max", "min") and "as Ord" in func):
            a, b = args
            return ret(z3.If(z3.UGE(a, b), a, b) if meth == "max" else z3.If(z3.ULE(a, b), a, b))
        if meth == "saturating_sub" and "num" in base:
            a, b = args
            return ret(z3.If(z3.UGE(a, b), a - b, bv(0, a.size())))
        if meth == "checked_sub" and "num" in base:
            a, b = args
            return ("fork", [(z3.UGE(a, b), Enum("Option", 1, {1: [a - b]})), (z3.ULT(a, b), Enum("Option", 0, {0: []}))])
        if meth in ("checked_add", "saturating_add", "wrapping_add", "wrapping_sub") and "num" in base:
            mi = re.search(r"<impl ([a-z0-9]+)>", func)
            if not mi or mi.group(1) in SIGNED:
                raise Unsupported("signed " + meth)
            a, b = args
            r = a + b
            ov = z3.ULT(r, a)
            if meth == "wrapping_add":
                return ret(r)
            if meth == "wrapping_sub":
                return ret(a - b)
            if meth == "saturating_add":
                return ret(z3.If(ov, bv((1 << a.size()) - 1, a.size()), r))
            return ("fork", [(z3.Not(ov), Enum("Option", 1, {1: [r]})), (ov, Enum("Option", 0, {0: []}))])
        if base == "dbutils::abort" or meth in ("panic_fmt", "panic", "expect_failed", "unwrap_failed", "panic_const_add_overflow"):
            return ("panic", func)
        if meth == "call" and "as Fn<" in func:
            clo = args[0]
            if isinstance(clo, LocalRef):
                clo = self._project(stk, clo, [("deref",)])
            if not isinstance(clo, Closure):
                raise Unsupported("Fn::call on %r" % (clo,))
            name = self.p.closures.get(clo.loc)
            if name is None:
                raise Unsupported("closure body not found: " + clo.loc)
            fn = self.p.fn(name)
            tup = args[1]
            nf = Frame(fn, fr.fid + ((fr.fn.name, fr.bb),), {}, dest, target)
            nf.locals[1] = args[0]
            for i, v in enumerate(tup.f):
                nf.locals[2 + i] = v
            stk.append(nf)
            return None
        if meth == "branch" and " as Try>" in func:
            e = args[0]
            # Result<T,E>::branch -> ControlFlow<Result<Infallible,E>, T>
            outs = []
            for idx, fields in e.variants.items():
                c = (e.discr == idx) if not isinstance(e.discr, int) else z3.BoolVal(e.discr == idx)
                if idx == 0:
                    outs.append((c, Enum("ControlFlow", 0, {0: [fields[0]]})))
                else:
                    outs.append((c, Enum("ControlFlow", 1, {1: [Enum("Result", 1, {1: [fields[0]]})]})))
            live = [(c, v) for (c, v) in outs if not z3.is_false(z3.simplify(c))]
            if len(live) == 1:
                return ret(live[0][1])
            return ("fork", live)
        if meth in ("and_then", "filter") and base.startswith("Option::"):
            # Option combinators with a pure closure (the checked size arithmetic): evaluate the closure body on the side
            opt, clo = args
            if isinstance(clo, LocalRef):
                clo = self._project(stk, clo, [("deref",)])
            name = self.p.closures.get(clo.loc) if isinstance(clo, Closure) else None
            if name is None or not isinstance(opt, Enum):
                raise Unsupported("Option::%s with an unknown closure/value" % meth)
            none_c = (opt.discr == 0) if not isinstance(opt.discr, int) else z3.BoolVal(opt.discr == 0)
            outs = []
            if not z3.is_false(z3.simplify(none_c)):
                outs.append((none_c, Enum("Option", 0, {0: []})))
            if 1 in opt.variants and not z3.is_true(z3.simplify(none_c)):
                v = opt.variants[1][0]
                fn = self.p.fn(name)
                nf = Frame(fn, fr.fid + ((fr.fn.name, fr.bb), "pure"), {}, None, None, gen=list(fr.gen))
                nf.locals[1] = clo
                if meth == "filter":
                    # the predicate takes &T: a reference to a scratch local of the closure frame
                    nf.locals[900] = v
                    nf.locals[2] = LocalRef(nf.fid, 900, [])
                else:
                    nf.locals[2] = v
                nf.pure_stop = True
                ends = self.run([f.clone() for f in stk] + [nf], [], stop_at_return=True)
                for e in ends:
                    if e.kind != "done":
                        raise Unsupported("closure passed to Option::%s is not pure (%s)" % (meth, e.kind))
                    g = z3.And(z3.Not(none_c), e.guard)
                    if meth == "and_then":
                        outs.append((g, e.info))
                    else:
                        b = e.info
                        outs.append((z3.And(g, b), Enum("Option", 1, {1: [v]})))
                        outs.append((z3.And(g, z3.Not(b)), Enum("Option", 0, {0: []})))
            outs = [(c, val) for (c, val) in outs if not z3.is_false(z3.simplify(c))]
            if len(outs) == 1:
                return ret(outs[0][1])
            return ("fork", outs)
        if meth == "from_residual":
            e = args[0]
            return ret(Enum("Result", 1, {1: [e.variants[1][0]]}))
        if meth == "expect" and base.startswith("Option::"):
            e = args[0]
            if isinstance(e.discr, int):
                if e.discr == 1:
                    return ret(e.variants[1][0])
                return ("panic", "Option::expect on None")
            return ("fork", [(e.discr == 1, e.variants[1][0])]) if 1 in e.variants else ("panic", "expect None")
        # ---------------- crate functions: inline
        name = self.p.resolve(func, len(args))
        if name is not None:
            if name in self.cfg.get("summaries", {}):
                return ret(self.cfg["summaries"][name](self, args))
            fn = self.p.fn(name)
            gm = re.search(r"::<(.*)>$", func)
            gen = mir.split_top(gm.group(1)) if gm else []
            nf = Frame(fn, fr.fid + ((fr.fn.name, fr.bb),), {}, dest, target, gen=gen)
            for i, v in enumerate(args):
                nf.locals[i + 1] = v
            stk.append(nf)
            return None
        raise Unsupported("callee not modelled: " + func)
