"""Effects mode: one symbolic pass over the MIR of the file-open functions (memory.rs map_mut_in / map_in and
their closures) with every callee outside the crate summarised as an *opaque* call: a fresh symbolic result of
the declared type plus an entry in the path's effect list. z3 decides which paths are feasible.
Decides the ordering obligations of C09 on the real control flow of the open path:
  E1  a refused writable open (Err result) performs no write to the mapping           (map_mut_in)
  E2  an existing file too small for the header is never accepted                      (map_mut_in, !create_new)
  E3  a read-only open performs no write to the mapping on any path                    (map_in)
Summaries (part of the claim): sanity_check / write_sanity are opaque here (decided exhaustively by Engine K);
every non-crate callee returns an arbitrary value of its type; `set_len` is a growth of the file, not a write
to existing bytes; unwinding (cleanup) paths are not followed.

usage: python3-vt -m mirsmt.effects <mir_memmap.txt> <src dir> <out.json>"""
import sys, re, json, time, os, subprocess
import z3
from . import mir, sym
from .sym import Tup, Enum, Opaque, Closure, LocalRef, MemRef, UNIT, bv, Frame, INT_W
from .mir import Unsupported

WRITES = ("write_bytes", "write_sanity", "::write", "copy_nonoverlapping", "copy_from_slice")
SUMMARISED = ("sanity_check", "write_sanity", "invalid_input", "invalid_data", "::mlock", "bad_freelist", "bad_magic")
CRATE_MODS = {"memory", "options", "open_options", "sync", "unsync", "common", "sealed", "error", "allocator", "bytes", "object"}
PASS = {"branch", "from_residual", "size_of", "align_of", "checked_sub", "checked_add", "saturating_sub", "saturating_add", "is_ok", "is_err"}


class Sym(Opaque):
    """opaque value with identity; fields are synthesised on demand from the projection's type annotation"""
    n = [0]

    def __init__(self, tag, ty=None):
        Opaque.__init__(self, tag)
        Sym.n[0] += 1
        self.id = Sym.n[0]
        self.ty = ty
        self.fields = {}

    def __repr__(self):
        return "Sym#%d(%s)" % (self.id, self.tag)


def fresh(prefix):
    Sym.n[0] += 1
    return "%s!%d" % (re.sub(r"[^A-Za-z0-9_]", "_", prefix)[:32], Sym.n[0])


class EffExec(sym.Executor):
    def __init__(self, prog, cfg):
        sym.Executor.__init__(self, prog, {}, cfg)
        self.side = []
        self.max_paths = 50000

    def synth(self, ty, tag):
        ty = (ty or "?").strip()
        if ty in INT_W:
            return z3.BitVec(fresh(tag), INT_W[ty])
        if ty == "bool":
            return z3.Bool(fresh(tag))
        if ty == "()":
            return UNIT
        m = re.match(r"(?:std::result::|core::result::)?Result<(.*)>$", ty) or re.match(r"std::io::Result<(.*)>$", ty)
        if m:
            parts = mir.split_top(m.group(1))
            ok = parts[0]
            err = parts[1] if len(parts) > 1 else "std::io::Error"
            d = z3.BitVec(fresh("discr_" + tag), 64)
            self.side.append(z3.ULE(d, 1))
            return Enum("Result", d, {0: [self.synth(ok, tag + ".ok")], 1: [self.synth(err, tag + ".err")]})
        m = re.match(r"(?:std::option::|core::option::)?Option<(.*)>$", ty)
        if m:
            d = z3.BitVec(fresh("discr_" + tag), 64)
            self.side.append(z3.ULE(d, 1))
            return Enum("Option", d, {0: [], 1: [self.synth(m.group(1), tag + ".some")]})
        if ty.startswith("(") and ty.endswith(")") and mir.match_paren(ty, 0) == len(ty) - 1:
            return Tup([self.synth(t, tag + ".%d" % i) for i, t in enumerate(mir.split_top(ty[1:-1]))])
        if ty.endswith("Freelist"):
            d = z3.BitVec(fresh("discr_fl"), 64)
            self.side.append(z3.ULE(d, 2))
            return Enum("Freelist", d, {0: [], 1: [], 2: []})
        return Sym(tag, ty)

    def _project(self, stack, v, proj):
        proj = list(proj)
        while proj:
            p = proj[0]
            if isinstance(v, Sym):
                if p[0] == "deref":
                    key = ("deref",)
                    if key not in v.fields:
                        v.fields[key] = Sym(v.tag + ".*", None)
                    v = v.fields[key]
                elif p[0] == "field":
                    key = ("field", p[1])
                    if key not in v.fields:
                        v.fields[key] = self.synth(p[2], "%s.%d" % (v.tag, p[1]))
                    v = v.fields[key]
                else:
                    raise Unsupported("projection %s of opaque %r" % (p, v))
                proj = proj[1:]
                continue
            # one step of the ordinary projection
            v = sym.Executor._project(self, stack, v, proj[:1])
            proj = proj[1:]
        return v

    def ref_place(self, stack, frame, place):
        try:
            return sym.Executor.ref_place(self, stack, frame, place)
        except Unsupported:
            return Sym("ref(_%d)" % place.local)

    def rvalue(self, stack, frame, rv, dest_place):
        try:
            return sym.Executor.rvalue(self, stack, frame, rv, dest_place)
        except Unsupported as e:
            if rv.kind in ("cast", "binop", "unop"):
                ty = self.local_type(frame, dest_place)
                return self.synth(ty, "rv")
            raise

    def binop(self, name, a, b, signed):
        if isinstance(a, Sym) or isinstance(b, Sym):
            if name in ("Eq", "Ne", "Lt", "Le", "Gt", "Ge"):
                return z3.Bool(fresh("cmp"))
            return Sym("arith")
        return sym.Executor.binop(self, name, a, b, signed)

    def cast(self, v, ty, kind, srcsigned=False):
        if isinstance(v, Sym):
            if ty.strip() in INT_W:
                return z3.BitVec(fresh("cast"), INT_W[ty.strip()])
            return v
        if isinstance(v, Enum) and kind == "IntToInt" and ty.strip() in INT_W:
            d = v.discr if not isinstance(v.discr, int) else bv(v.discr, 64)
            w = INT_W[ty.strip()]
            return z3.Extract(w - 1, 0, d) if w < 64 else d
        return sym.Executor.cast(self, v, ty, kind, srcsigned)

    def const(self, text, hint_ty=None):
        if text.startswith("fnitem "):
            return Sym(text)
        try:
            return sym.Executor.const(self, text, hint_ty)
        except Unsupported:
            return Sym("const " + text[:40])

    def effects(self, stk):
        return stk[0].locals.get("EFF", ())

    def add_effect(self, stk, e):
        stk[0].locals["EFF"] = self.effects(stk) + (e,)

    def dest_type(self, fr, dest):
        if dest is None:
            return "()"
        if not dest.proj:
            if dest.local == 0:
                return fr.fn.ret_type
            return fr.fn.local_types.get(dest.local) or fr.fn.arg_types.get(dest.local)
        last = dest.proj[-1]
        return last[2] if last[0] == "field" else "?"

    def call(self, stk, fr, t, cnd):
        func = t.a["func"]
        base = sym.strip_generics(func)
        meth = base.split("::")[-1]
        dest, target = t.a["dest"], t.a["target"]
        if meth == "and_then" and base.startswith("Result::"):
            res, clo = [self.operand(stk, fr, a) for a in t.a["args"]]
            name = self.p.closures.get(clo.loc) if isinstance(clo, Closure) else None
            if name is None:
                raise Unsupported("and_then: closure body not found")
            fn = self.p.fn(name)
            okc = (res.discr == 0) if not isinstance(res.discr, int) else z3.BoolVal(res.discr == 0)
            errv = Enum("Result", 1, {1: [res.variants[1][0]]})
            okv = res.variants[0][0]
            gen = list(fr.gen)
            fid = fr.fid + ((fr.fn.name, fr.bb),)

            def act_err(s2):
                f2 = s2[-1]
                self.write_place(s2, f2, dest, errv)
                f2.bb = target

            def act_ok(s2):
                nf = Frame(fn, fid, {}, dest, target, gen=gen)
                nf.locals[1] = clo
                nf.locals[2] = okv
                s2.append(nf)

            return ("forkx", [(z3.Not(okc), act_err), (okc, act_ok)])
        if meth == "map_err" and base.startswith("Result::"):
            res = self.operand(stk, fr, t.a["args"][0])
            if isinstance(res, Enum):
                vs = {}
                if 0 in res.variants:
                    vs[0] = [res.variants[0][0]]
                if 1 in res.variants:
                    vs[1] = [Sym("mapped_err")]
                out = Enum("Result", res.discr, vs)
                self.write_place(stk, fr, dest, out)
                fr.bb = target
                return None
        if meth == "unwrap_or_default" and base.startswith("Option::"):
            o = self.operand(stk, fr, t.a["args"][0])
            some = (o.discr == 1) if not isinstance(o.discr, int) else z3.BoolVal(o.discr == 1)
            v = o.variants[1][0] if 1 in o.variants else bv(0, 64)
            self.write_place(stk, fr, dest, z3.If(some, v, bv(0, v.size())))
            fr.bb = target
            return None
        summarised = any(s_ in func for s_ in SUMMARISED)
        first = base.lstrip("<").split("::")[0]
        crate_local = func in self.p.raw or base in self.p.raw or first in CRATE_MODS
        resolved = None if (summarised or not crate_local) else self.p.resolve(func, len(t.a["args"]))
        generic_trait = re.match(r"<[A-Z][A-Za-z0-9]* as ", func) is not None
        if summarised or generic_trait or (resolved is None and meth not in PASS and not (meth == "call" and "as Fn<" in func)):
            args = [self.operand(stk, fr, a) for a in t.a["args"]]
            ty = self.dest_type(fr, dest)
            kind = "write" if any(w in func for w in WRITES) else "call"
            tag = re.sub(r"<.*?>", "", base).split("::")[-1]
            if target is None:
                return ("panic", func)
            v = self.synth(ty, tag)
            self.add_effect(stk, {"kind": kind, "func": re.sub(r"\s+", " ", func)[:140], "result": v, "args": args})
            if dest is not None:
                self.write_place(stk, fr, dest, v)
            fr.bb = target
            return None
        return sym.Executor.call(self, stk, fr, t, cnd)


def explore(mir_text, src, entry_pat):
    prog = sym.Program(mir_text, src)
    cfg = {"mir_text": mir_text, "mem_layouts": {}, "layouts": {("size_of", "H"): 24, ("align_of", "H"): 8}, "summaries": {}}
    ex = EffExec(prog, cfg)
    names = [n for n in prog.raw if re.search(entry_pat, n) and "{closure" not in n]
    if len(names) != 1:
        raise Unsupported("entry not found / ambiguous: %s -> %s" % (entry_pat, names))
    fn = prog.fn(names[0])
    fr = Frame(fn, ("E",), {}, gen=["H"])
    opts = Sym("opts", "options::Options")
    fr.locals[1] = Sym("path", "PathBuf")
    fr.locals[2] = opts
    fr.locals[3] = Sym("f", "impl FnOnce")
    ends = ex.run([fr], [])
    return prog, ex, ends, opts, names[0]


DIFF = {"queries": 0, "disagreements": 0, "inconclusive": 0, "solver": "cvc5 --lang smt2 (QF_BV), same SMT-LIB text as z3 decided"}


def feasible(ex, guard, extra=()):
    s = z3.Solver()
    s.set("timeout", 20000)
    s.add(ex.side)
    s.add(guard)
    s.add(*extra)
    r = s.check()
    if os.environ.get("MIRSMT_DIFF") and r in (z3.sat, z3.unsat):
        # second solver on the same query (thorough tier): a disagreement makes the whole run inconclusive
        try:
            p = subprocess.run(["cvc5", "--lang", "smt2", "--tlimit=20000", "-"], input=("(set-logic QF_BV)\n" + s.to_smt2()).encode(),
                               stdout=subprocess.PIPE, stderr=subprocess.PIPE, timeout=40)
            out = p.stdout.decode().strip().split("\n")[0] if p.stdout else ""
            err = p.stderr.decode()
        except Exception as e_:
            out, err = "", str(e_)
        DIFF["queries"] += 1
        if "(error" in err or "(error" in out or out not in ("sat", "unsat"):
            DIFF["inconclusive"] += 1
        elif out != str(r):
            DIFF["disagreements"] += 1
            raise Unsupported("second solver disagrees: z3 %s, cvc5 %s" % (r, out))
    return r


def check(mir_text, src, label, entry, readonly):
    prog, ex, ends, opts, fname = explore(mir_text, src, entry)
    obligations = []
    n_paths = n_ok = n_err = n_panic = 0
    viol_e1, viol_e2, viol_e3 = [], [], []
    offset_idx = None
    onames = prog.structs.get(("options", "Options")) or prog.structs.get(("open_options", "Options"))
    for e in ends:
        if e.kind == "panic":
            n_panic += 1
            continue
        if e.kind != "done":
            continue
        n_paths += 1
        effs = e.stack[0].locals.get("EFF", ())
        rv = e.info
        writes = [x for x in effs if x["kind"] == "write"]
        is_err = None
        if isinstance(rv, Enum):
            d = rv.discr
            if isinstance(d, int):
                is_err = z3.BoolVal(d == 1)
            else:
                is_err = d == 1
        else:
            raise Unsupported("return value of %s is not a Result: %r" % (label, rv))
        if readonly:
            if writes and feasible(ex, e.guard) == z3.sat:
                viol_e3.append({"writes": [w["func"] for w in writes]})
            if any("sanity_check" in x["func"] for x in effs) and feasible(ex, e.guard, [z3.Not(is_err)]) == z3.sat:
                n_ok += 1
            continue
        # E1: on an existing file, a write to the mapping before the identification check has passed
        create_new_e1 = None
        for x in effs:
            if "::open" in x["func"] and isinstance(x["result"], Enum):
                tup = x["result"].variants[0][0]
                if isinstance(tup, Tup) and isinstance(tup.f[0], z3.BoolRef):
                    create_new_e1 = tup.f[0]
        if writes:
            names = [x["func"] for x in effs]
            first_write = min(i for i, x in enumerate(effs) if x["kind"] == "write")
            checks = [i for i, n in enumerate(names) if "sanity_check" in n]
            early = not checks or first_write < checks[0]
            if early:
                extra = [z3.Not(create_new_e1)] if create_new_e1 is not None else []
                r = feasible(ex, e.guard, extra)
                if r == z3.sat:
                    viol_e1.append({"first_write": names[first_write], "then": names[first_write + 1: first_write + 4],
                                    "path_result": "Err possible" if feasible(ex, e.guard, extra + [is_err]) == z3.sat else "Ok only"})
                    n_err += 1
                elif r != z3.unsat:
                    raise Unsupported("solver: %s" % r)
        # E2: Ok result although the existing file is smaller than the header prefix
        lens = [x for x in effs if x["func"].startswith("Metadata::len") or "Metadata::len" in x["func"]]
        if lens:
            file_size = lens[0]["result"]
            create_new = None
            for x in effs:
                if "::open" in x["func"] and isinstance(x["result"], Enum):
                    tup = x["result"].variants[0][0]
                    if isinstance(tup, Tup) and isinstance(tup.f[0], z3.BoolRef):
                        create_new = tup.f[0]
            reserved = None
            off = None
            for key, v in opts.fields.items():
                pass
            # reserved and offset as the code read them: Options::reserved() result and the `offset` field
            for x in effs:
                if x["func"].endswith("Options::reserved") and reserved is None:
                    reserved = x["result"]
            if reserved is None:
                res_vals = [v for (k, v) in opts.fields.items() if isinstance(v, z3.BitVecRef) and v.size() == 32]
                reserved = res_vals[0] if res_vals else None
            offs = [v for (k, v) in opts.fields.items() if isinstance(v, z3.BitVecRef) and v.size() == 64]
            if create_new is not None and reserved is not None and len(offs) == 1:
                off = offs[0]
                r64 = z3.ZeroExt(32, reserved) if reserved.size() == 32 else reserved
                prefix = ((r64 + 7) & ~bv(7, 64)) + 8 + 24
                small = z3.ULT(z3.If(z3.UGE(file_size, off), file_size - off, bv(0, 64)), prefix)
                r = feasible(ex, e.guard, [z3.Not(is_err), z3.Not(create_new), small, z3.ULE(r64, 1 << 20)])
                if r == z3.sat:
                    viol_e2.append({"calls": [x["func"] for x in effs][-5:]})
                elif r != z3.unsat:
                    raise Unsupported("solver: %s" % r)
            else:
                raise Unsupported("could not identify create_new/reserved/offset in the explored paths (%s, %s, %d)" % (create_new is not None, reserved is not None, len(offs)))
        if feasible(ex, e.guard, [z3.Not(is_err)]) == z3.sat:
            n_ok += 1
    base = {"function": fname, "paths": n_paths, "panic_paths_not_followed": n_panic, "ok_paths": n_ok}
    if readonly:
        obligations.append(dict(base, id="E3", text="%s: no write to the mapping on any path" % label, holds=not viol_e3, witnesses=viol_e3[:3]))
    else:
        obligations.append(dict(base, id="E1", text="%s: when an existing file is opened no byte of the mapping is written before the identification check (sanity_check) has passed, so a refused open leaves the file as it was" % label, holds=not viol_e1, witnesses=viol_e1[:3]))
        obligations.append(dict(base, id="E2", text="%s: an existing file smaller than the header prefix is never accepted" % label, holds=not viol_e2, witnesses=viol_e2[:3]))
    return obligations


def main():
    mir_text = open(sys.argv[1]).read()
    mir_text = re.sub(r"// MIR FOR CTFE\nfn .*?^\}\n", "", mir_text, flags=re.S | re.M)
    src = sys.argv[2]
    out = {"obligations": [], "error": None}
    t0 = time.time()
    try:
        out["obligations"] += check(mir_text, src, "map_mut_in", r"::map_mut_in$", False)
        out["obligations"] += check(mir_text, src, "map_in", r"::map_in$", True)
    except Unsupported as e:
        out["error"] = "unsupported MIR construct: " + str(e)
    out["wall_s"] = round(time.time() - t0, 1)
    if os.environ.get("MIRSMT_DIFF"):
        out["second_solver"] = dict(DIFF)
    json.dump(out, open(sys.argv[3], "w"), indent=1, default=str)
    print(json.dumps(out, indent=1, default=str)[:3000])


if __name__ == "__main__":
    main()
