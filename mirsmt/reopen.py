"""Effects mode, reopen obligations (C05): one symbolic pass over the MIR of the functions that run when a
file-backed arena is opened again and when it is dropped (memory.rs `map_mut_in`, `map_in` with their closures,
`unmount`). Every callee outside the crate is an opaque call with a fresh symbolic result and an entry in the
path's effect list; z3 decides, per explored path, whether the path is feasible for an *existing* file
(`create_new = false`) with an accepting result and whether the values the code computed can differ from the
reopen contract:

  R1  writable reopen: the only store into the mapping is `write_bytes(ptr + allocated, 0, len - allocated)` with
      `allocated` the cursor loaded from the in-file header at `ptr + align8(reserved) + 8`, executed exactly when
      `len > allocated`; nothing below the stored cursor is written, everything at or above it is zeroed.
  R2  the file length is only ever grown (`set_len(n)` is reached only with `file_size < n`), and no other
      file-level mutator (remove, truncate, write) is called on an open of an existing file.
  R3  the `Memory` a writable reopen returns has cap = mapping length, reserved = Options::reserved,
      data_offset = align8(reserved)+8+size_of(Header), header at Left(align8(reserved)+8), the mapping's pointer,
      unify = true, read_only = false, freelist and magic_version = the values that `sanity_check` was asked to
      compare the file against (so a successful open implies stored == reported).
  R4  a read-only reopen (`map_in`: map, map_copy_read_only) returns the same layout with read_only = true and the
      freelist kind *read from the file* (the Ok value of sanity_check called with no expectation); no store, no
      set_len on any path.
  R6  Options::open reports an existing file as existing and does not resize it; R7s/R7u Arena::from(Memory) copies the
      Memory's values; R8 the explicit flush family stores nothing and changes neither file length nor Memory fields.
  R5  `unmount` (drop of the last handle) of a file-backed arena that is not marked remove-on-drop performs no
      store into the mapping and no set_len/remove/truncate; it releases the mapping (Box::from_raw of the map
      object) and, for the writable backend, calls File::sync_all afterwards.

Summaries are those of effects.py; in addition the mapping length (`PtrMetadata` of the deref'ed map) and pointer
arithmetic on opaque pointers are recorded as `derive`/`call` effects so that provenance can be followed.

usage: python3-vt -m mirsmt.reopen <mir_memmap.txt> <src dir> <out.json>"""
import sys, re, json, time
import z3
from . import mir, sym, effects as E
from .sym import Tup, Enum, Opaque, Closure, LocalRef, UNIT, bv, Frame, INT_W
from .mir import Unsupported
from .effects import Sym, EffExec, feasible

FILE_MUTATORS = ("remove_file", "File::create", "set_permissions", "::truncate", "write_all", "File::write", "fs::write", "fs::rename")
RES_MAX = 0xFFFFFF00  # reserved <= 2^32 - 256: the u32 casts of header offset and data offset cannot wrap
H_SIZE = 24  # size_of::<H>() as configured for the generic header parameter (both flavours' Header is 24 bytes; K checks the real layout)


class Lazy(dict):
    """payload of an enum variant / struct of the symbolic `self`: fields are synthesised on first use"""

    def __init__(self, tag):
        dict.__init__(self)
        self.tag = tag

    def __getitem__(self, i):
        if i not in self:
            dict.__setitem__(self, i, Sym("%s.%s" % (self.tag, i)))
        return dict.__getitem__(self, i)


class RExec(EffExec):
    def rvalue(self, stack, frame, rv, dest_place):
        try:
            return sym.Executor.rvalue(self, stack, frame, rv, dest_place)
        except Unsupported:
            if rv.kind in ("cast", "binop", "unop"):
                ty = self.local_type(frame, dest_place)
                v = self.synth(ty, "rv")
                args = []
                try:
                    ops = [a for a in rv.args if isinstance(a, mir.Operand)] if hasattr(mir, "Operand") else []
                    if not ops:
                        ops = [rv.args[1]] if rv.kind == "unop" else ([rv.args[0]] if rv.kind == "cast" else list(rv.args[1:3]))
                    args = [self.operand(stack, frame, o) for o in ops]
                except Exception:
                    args = []
                name = rv.args[0] if rv.kind in ("unop", "binop") else "cast"
                self.add_effect(stack, {"kind": "derive", "func": "rvalue %s" % (name,), "result": v, "args": args})
                return v
            raise

    def call(self, stk, fr, t, cnd):
        func = t.a["func"]
        base = sym.strip_generics(func)
        meth = base.split("::")[-1]
        # Options builder setters used by map_in (with_create, with_read, ...): summarised as "same Options value"
        # (they set file-open flags only; `Options::open`, which reads those flags, is opaque anyway)
        if meth.startswith("with_") and "Options" in func and t.a["target"] is not None and len(t.a["args"]) == 2:
            v = self.operand(stk, fr, t.a["args"][0])
            if isinstance(v, Sym):
                self.add_effect(stk, {"kind": "call", "func": re.sub(r"\s+", " ", func)[:140], "result": v, "args": [v, self.operand(stk, fr, t.a["args"][1])]})
                self.write_place(stk, fr, t.a["dest"], v)
                fr.bb = t.a["target"]
                return None
        if meth == "map" and base.startswith("Result::") and len(t.a["args"]) == 2:
            res, clo = [self.operand(stk, fr, a) for a in t.a["args"]]
            name = self.p.closures.get(clo.loc) if isinstance(clo, Closure) else None
            if name is not None and isinstance(res, Enum):
                fn = self.p.fn(name)
                okc = (res.discr == 0) if not isinstance(res.discr, int) else z3.BoolVal(res.discr == 0)
                errv = Enum("Result", 1, {1: [res.variants[1][0]]})
                okv = res.variants[0][0]
                gen = list(fr.gen)
                fid = fr.fid + ((fr.fn.name, fr.bb),)
                dest, target = t.a["dest"], t.a["target"]

                def act_err(s2):
                    f2 = s2[-1]
                    self.write_place(s2, f2, dest, errv)
                    f2.bb = target

                def act_ok(s2):
                    nf = Frame(fn, fid, {}, dest, target, gen=gen)
                    nf.locals[1] = clo
                    nf.locals[2] = okv
                    nf.ret_wrap = lambda v: Enum("Result", 0, {0: [v]})
                    s2.append(nf)

                return ("forkx", [(z3.Not(okc), act_err), (okc, act_ok)])
        if meth in ("min", "max") and re.match(r"<(u8|u16|u32|u64|usize) as Ord>::", func) and t.a["target"] is not None:
            a, b = [self.operand(stk, fr, x) for x in t.a["args"]]
            if isinstance(a, z3.BitVecRef) and isinstance(b, z3.BitVecRef):
                v = z3.If(z3.ULE(a, b), a, b) if meth == "min" else z3.If(z3.ULE(a, b), b, a)
                self.write_place(stk, fr, t.a["dest"], v)
                fr.bb = t.a["target"]
                return None
        return EffExec.call(self, stk, fr, t, cnd)

    def ref_place(self, stack, frame, place):
        # &*p for an opaque pointer p is p itself (keeps the provenance of `&*header_ptr`)
        if len(place.proj) == 1 and place.proj[0][0] == "deref":
            v = frame.locals.get(place.local)
            if isinstance(v, Sym):
                return v
        return EffExec.ref_place(self, stack, frame, place)

    def _write_into(self, root, proj, val):
        if proj and proj[0][0] == "downcast" and isinstance(root, Enum) and len(proj) >= 2 and proj[1][0] == "field":
            idx = self.variant_index(root.tname, proj[0][1])
            old = root.variants.get(idx)
            if isinstance(old, Lazy):
                k = proj[1][1]
                new = Lazy(old.tag)
                for kk, vv in old.items():
                    dict.__setitem__(new, kk, vv)
                cur = old[k] if (k in old or len(proj) > 2) else None
                dict.__setitem__(new, k, self._write_into(cur, proj[2:], val))
                vs = dict(root.variants)
                vs[idx] = new
                return Enum(root.tname, root.discr, vs)
        return EffExec._write_into(self, root, proj, val)

    def _project(self, stack, v, proj):
        proj = list(proj)
        if proj and isinstance(v, Enum) and proj[0][0] == "downcast":
            idx = self.variant_index(v.tname, proj[0][1])
            if idx in v.variants and isinstance(v.variants[idx], Lazy):
                cur = ("variant", v.variants[idx])
                return self._project(stack, cur, proj[1:]) if proj[1:] else cur
        if proj and isinstance(v, tuple) and v and v[0] == "variant" and isinstance(v[1], Lazy) and proj[0][0] == "field":
            f = v[1]
            key = proj[0][1]
            if key not in f:
                dict.__setitem__(f, key, self.synth(proj[0][2], "%s.%d" % (f.tag, key)))
            return self._project(stack, f[key], proj[1:]) if proj[1:] else f[key]
        return EffExec._project(self, stack, v, proj)


def explore(mir_text, src, entry_pat, init):
    prog = sym.Program(mir_text, src)
    cfg = {"mir_text": mir_text, "mem_layouts": {}, "layouts": {("size_of", "H"): H_SIZE, ("align_of", "H"): 8}, "summaries": {}}
    ex = RExec(prog, cfg)
    names = [n for n in prog.raw if re.search(entry_pat, n) and "{closure" not in n]
    if len(names) != 1:
        raise Unsupported("entry not found / ambiguous: %s -> %s" % (entry_pat, names))
    fn = prog.fn(names[0])
    fr = Frame(fn, ("E",), {}, gen=["H"])
    ctx = init(ex, prog, fr)
    ends = ex.run([fr], [])
    return prog, ex, ends, ctx, names[0]


def init_open(ex, prog, fr):
    opts = Sym("opts", "options::Options")
    fr.locals[1] = Sym("path", "PathBuf")
    fr.locals[2] = opts
    fr.locals[3] = Sym("f", "impl FnOnce")
    return {"opts": opts}


def opt_field(prog, opts, name):
    names = prog.structs.get(("options", "Options")) or prog.structs.get(("open_options", "Options"))
    if not names or name not in names:
        raise Unsupported("Options has no field %s" % name)
    return opts.fields.get(("field", names.index(name)))


def prove(ex, guard, assumptions, claim):
    """True iff guard /\ assumptions => claim (unsat of the negation); 'unknown' raises"""
    r = feasible(ex, guard, list(assumptions) + [z3.Not(claim)])
    if r == z3.unsat:
        return True, None
    if r == z3.sat:
        return False, None
    raise Unsupported("solver answered %s" % r)


def eff_by_result(effs, v):
    for x in effs:
        if x["result"] is v:
            return x
    return None


def is_err_of(rv):
    if not isinstance(rv, Enum):
        raise Unsupported("return value is not a Result: %r" % (rv,))
    d = rv.discr
    return z3.BoolVal(d == 1) if isinstance(d, int) else d == 1


def create_new_of(effs):
    for x in effs:
        if "::open" in x["func"] and isinstance(x["result"], Enum):
            tup = x["result"].variants[0][0]
            if isinstance(tup, Tup) and isinstance(tup.f[0], z3.BoolRef):
                return tup.f[0]
    return None


def z64(v):
    if isinstance(v, int):
        return bv(v, 64)
    if isinstance(v, z3.BitVecRef):
        return z3.ZeroExt(64 - v.size(), v) if v.size() < 64 else v
    return None


def same(a, b):
    """structural/semantic equality obligation between a computed value and the expected one -> z3 Bool or python bool"""
    if isinstance(a, bool):
        a = z3.BoolVal(a)
    if isinstance(b, bool):
        b = z3.BoolVal(b)
    if isinstance(a, int) and isinstance(b, z3.BitVecRef):
        a = bv(a, b.size())
    if isinstance(b, int) and isinstance(a, z3.BitVecRef):
        b = bv(b, a.size())
    if isinstance(a, int) and isinstance(b, int):
        return z3.BoolVal(a == b)
    if isinstance(a, z3.ExprRef) and isinstance(b, z3.ExprRef):
        if isinstance(a, z3.BitVecRef) and isinstance(b, z3.BitVecRef) and a.size() != b.size():
            return z3.BoolVal(False)
        return a == b
    if isinstance(a, Enum) and isinstance(b, Enum):
        da = a.discr if not isinstance(a.discr, int) else bv(a.discr, 64)
        db = b.discr if not isinstance(b.discr, int) else bv(b.discr, 64)
        return da == db
    return z3.BoolVal(a is b)


def mapping_facts(prog, ex, effs, opts, readonly):
    """P (mapping pointer), L (mapping length), reserved, header offset; provenance followed through the effect list"""
    f = {}
    ptr_name = "as_ptr" if readonly else "as_mut_ptr"
    for x in effs:
        fn = x["func"]
        if fn.endswith("::" + ptr_name) and "P" not in f:
            src = eff_by_result(effs, x["args"][0]) if x["args"] else None
            if src is not None and ("Deref" in src["func"]):
                f["P"] = x["result"]
        if x["kind"] == "derive" and "PtrMetadata" in fn and "L" not in f and x["args"]:
            src = eff_by_result(effs, x["args"][0])
            if src is not None and "Deref" in src["func"]:
                f["L"] = x["result"]
    res = opt_field(prog, opts, "reserved")
    if res is None:
        raise Unsupported("Options::reserved not read on this path")
    f["res64"] = z64(res)
    f["hoff"] = ((f["res64"] + 7) & ~bv(7, 64)) + 8
    f["dofs"] = f["hoff"] + H_SIZE
    return f


def check_open(mir_text, src, label, entry, readonly):
    prog, ex, ends, ctx, fname = explore(mir_text, src, entry, init_open)
    opts = ctx["opts"]
    mem_names = prog.structs.get(("memory", "Memory"))
    if not mem_names:
        raise Unsupported("struct Memory not found")
    v_r1, v_r2, v_r3 = [], [], []
    n_paths = n_ok = n_zeroing = n_nozero = n_setlen = 0
    for e in ends:
        if e.kind != "done":
            continue
        n_paths += 1
        effs = e.stack[0].locals.get("EFF", ())
        is_err = is_err_of(e.info)
        cn = create_new_of(effs)
        base = [] if readonly else ([z3.Not(cn)] if cn is not None else None)
        if base is None:
            # the path returned before the file was opened: nothing of the file can have been touched
            if any(x["kind"] == "write" or "set_len" in x["func"] for x in effs):
                v_r2.append({"path": "before open", "calls": [x["func"] for x in effs][-4:]})
            continue
        if feasible(ex, e.guard, base) != z3.sat:
            continue
        # ---- R2: file-level mutators, on every path over an existing file (accepting or not) ----
        sizes = [x for x in effs if "Metadata::len" in x["func"]]
        for x in effs:
            if any(m in x["func"] for m in FILE_MUTATORS):
                v_r2.append({"call": x["func"], "why": "file-level mutator on an open of an existing file"})
            if "set_len" in x["func"]:
                n_setlen += 1
                if readonly or not sizes:
                    v_r2.append({"call": x["func"], "why": "set_len on a read-only open" if readonly else "set_len before the size was read"})
                    continue
                ok, _ = prove(ex, e.guard, base, z3.ULT(sizes[0]["result"], z64(x["args"][1])))
                if not ok:
                    v_r2.append({"call": x["func"], "why": "set_len reachable with a new length that is not larger than the current file size (the file can be cut)"})
        acc = base + [z3.Not(is_err)]
        res0 = opt_field(prog, opts, "reserved")
        if res0 is not None:
            acc.append(z3.ULE(z64(res0), RES_MAX))  # stated bound: reserved <= 2^32 - 256 (u32 casts of the header offset cannot wrap)
        if feasible(ex, e.guard, acc) != z3.sat:
            continue
        n_ok += 1
        writes = [x for x in effs if x["kind"] == "write"]
        try:
            f = mapping_facts(prog, ex, effs, opts, readonly)
        except Unsupported as u:
            v_r3.append({"why": str(u)})
            continue
        if "P" not in f or "L" not in f:
            v_r3.append({"why": "mapping pointer/length not obtained from the map object on an accepting path", "calls": [x["func"] for x in effs][-6:]})
            continue
        P, L = f["P"], z64(f["L"])
        # ---- R3 / R4: an accepted mapping holds the header prefix ----
        okp, _ = prove(ex, e.guard, acc, z3.UGE(L, f["dofs"]))
        if not okp:
            v_r3.append({"field": "capacity", "why": "a file can be opened although the mapping is shorter than the header prefix (data_offset() > capacity())"})
        # ---- R1 ----
        if readonly:
            for w in writes:
                v_r1.append({"write": w["func"], "why": "store into the mapping on a read-only open"})
        else:
            loads = [x for x in effs if x["func"].endswith("load_allocated")]
            A = None
            for x in loads:
                hp = x["args"][0] if x["args"] else None
                c = eff_by_result(effs, hp)
                a = eff_by_result(effs, c["args"][0]) if c is not None and "::cast" in c["func"] and c["args"] else None
                if a is not None and a["func"].endswith("::add") and a["args"][0] is P:
                    ok, _ = prove(ex, e.guard, acc, z64(a["args"][1]) == f["hoff"])
                    if ok:
                        A = z64(x["result"])
                        break
            if A is None:
                v_r1.append({"why": "the stored cursor is not loaded from the header at ptr + align8(reserved) + 8 on an accepting reopen path"})
                continue
            if not writes:
                n_nozero += 1
                ok, _ = prove(ex, e.guard, acc, z3.ULE(L, A))
                if not ok:
                    v_r1.append({"why": "accepting reopen path without zeroing although the mapping is longer than the stored cursor"})
            else:
                n_zeroing += 1
            for w in writes:
                good = False
                if "write_bytes" in w["func"] and len(w["args"]) == 3:
                    a = eff_by_result(effs, w["args"][0])
                    if a is not None and a["func"].endswith("::add") and a["args"][0] is P:
                        claim = z3.And(z64(a["args"][1]) == A, z64(w["args"][1]) == 0, z64(w["args"][2]) == L - A, z3.ULT(A, L))
                        good, _ = prove(ex, e.guard, acc, claim)
                if not good:
                    v_r1.append({"write": w["func"], "args": [repr(a_)[:80] for a_ in w["args"]],
                                 "why": "store into the mapping of an existing file that is not `write_bytes(ptr + allocated, 0, len - allocated)` under `len > allocated`"})
        # ---- R4: the read-only open forces the file-open flags before Options::open: whatever flags the caller left in
        # the Options (write, append, truncate, create, create_new) must not reach OpenOptions ----
        if readonly:
            fn_names = [x["func"] for x in effs]
            opens = [i for i, n in enumerate(fn_names) if "::open" in n and "Options" in n]
            need = {"with_create": False, "with_create_new": False, "with_read": True, "with_write": False, "with_append": False, "with_truncate": False}
            for nm, val in need.items():
                hit = False
                for i, x in enumerate(effs):
                    if x["func"].split("::")[-1] == nm and "Options" in x["func"] and len(x["args"]) == 2 and opens and i < opens[0]:
                        a1 = x["args"][1]
                        if isinstance(a1, bool):
                            a1 = z3.BoolVal(a1)
                        if isinstance(a1, z3.BoolRef) and z3.is_true(z3.simplify(a1 == z3.BoolVal(val))):
                            hit = True
                if not hit:
                    v_r3.append({"field": "open flags", "why": "the read-only open does not force %s(%s) before opening the file: a flag left in the caller's Options (write / append / truncate / create) reaches OpenOptions" % (nm, str(val).lower())})
        # ---- R4: a read-only open never accepts a file that is too small to contain the header prefix ----
        if readonly and sizes:
            offv = opt_field(prog, opts, "offset")
            if offv is None:
                v_r3.append({"field": "size check", "why": "Options::offset not consulted before accepting the file"})
            else:
                fs = sizes[0]["result"]
                avail = z3.If(z3.UGE(fs, offv), fs - offv, bv(0, 64))
                okp, _ = prove(ex, e.guard, acc, z3.UGE(avail, f["dofs"]))
                if not okp:
                    v_r3.append({"field": "size check", "why": "a file smaller than the header prefix (after Options::offset) can be accepted by the read-only open"})
        # ---- R4: a read-only open never maps beyond the end of the file ----
        if readonly:
            co = [x for x in effs if "FnOnce" in x["func"] and x["args"] and isinstance(x["args"][-1], Tup)]
            mo = co[-1]["args"][-1].f[0] if co else None
            src_mo = eff_by_result(effs, mo) if mo is not None else None
            if src_mo is None or not src_mo["func"].endswith("MmapOptions::new"):
                v_r3.append({"field": "mapping", "why": "the read-only mapping is not requested through the MmapOptions that map_in builds itself (length clamp to the file lost)"})
            else:
                capo = opt_field(prog, opts, "capacity")
                lens = [x for x in effs if x["func"].endswith("MmapOptions::len")]
                offs = [x for x in effs if x["func"].endswith("::offset") and "Options" in x["func"] and isinstance(x["result"], z3.BitVecRef)]
                if not lens:
                    if isinstance(capo, Enum):
                        cd = capo.discr if not isinstance(capo.discr, int) else bv(capo.discr, 64)
                        okc, _ = prove(ex, e.guard, acc, cd == 0)
                        if not okc:
                            v_r3.append({"field": "mapping", "why": "capacity option given but the mapping length is not clamped to what the file holds"})
                elif sizes:
                    room = sizes[0]["result"] - (offs[0]["result"] if offs else opt_field(prog, opts, "offset"))
                    okc, _ = prove(ex, e.guard, acc, z3.ULE(z64(lens[-1]["args"][1]), room))
                    if not okc:
                        v_r3.append({"field": "mapping", "why": "the requested mapping length can exceed file_size - offset"})
        # ---- R3 / R4: the returned Memory ----
        mem = e.info.variants[0][0]
        if not isinstance(mem, Tup) or len(mem.f) != len(mem_names):
            v_r3.append({"why": "returned value is not a Memory aggregate"})
            continue
        got = dict(zip(mem_names, mem.f))
        sc = [x for x in effs if x["func"] == "sanity_check" or x["func"].endswith("::sanity_check")]
        if not sc:
            v_r3.append({"why": "accepting path without sanity_check"})
            continue
        sc = sc[-1]
        exp_magic = sc["args"][1]
        ofl = opt_field(prog, opts, "freelist")
        omv = opt_field(prog, opts, "magic_version")
        if readonly:
            exp_fl = sc["result"].variants[0][0]
            want_expect = isinstance(sc["args"][0], Enum) and sc["args"][0].discr == 0
            if not want_expect:
                v_r3.append({"field": "freelist", "why": "read-only open passes an expected freelist to sanity_check instead of reading the kind from the file"})
        else:
            a0 = sc["args"][0]
            exp_fl = a0.variants[1][0] if isinstance(a0, Enum) and 1 in a0.variants else None
            if not (isinstance(a0, Enum) and a0.discr == 1 and exp_fl is not None):
                v_r3.append({"field": "freelist", "why": "writable reopen does not pass the configured freelist to sanity_check"})
                continue
            if ofl is not None:
                okfl, _ = prove(ex, e.guard, acc, same(exp_fl, ofl))
                if not okfl:
                    v_r3.append({"field": "freelist", "why": "sanity_check compares against something other than Options::freelist"})
        # the slice handed to sanity_check is mapping[reserved .. reserved+8]
        idx = eff_by_result(effs, sc["args"][2])
        okslice = False
        if idx is not None and "Index" in idx["func"] and isinstance(idx["args"][1], Tup):
            lo, hi = idx["args"][1].f[0], idx["args"][1].f[1]
            src_ = eff_by_result(effs, idx["args"][0])
            if src_ is not None and "Deref" in src_["func"]:
                okslice, _ = prove(ex, e.guard, acc, z3.And(z64(lo) == f["res64"], z64(hi) == f["res64"] + 8))
        if not okslice:
            v_r3.append({"field": "identification", "why": "sanity_check is not applied to mapping[reserved .. reserved + 8]"})
        if omv is not None:
            okm, _ = prove(ex, e.guard, acc, same(exp_magic, omv))
            if not okm:
                v_r3.append({"field": "magic_version", "why": "sanity_check compares against something other than Options::magic_version"})
        expect = {
            "cap": z3.Extract(31, 0, L),
            "reserved": f["res64"],
            "data_offset": f["dofs"],
            "ptr": P,
            "unify": True,
            "read_only": bool(readonly),
            "magic_version": exp_magic,
            "freelist": exp_fl,
            "header_offset": f["hoff"],
        }
        for k, want in expect.items():
            if k not in got:
                v_r3.append({"field": k, "why": "Memory has no such field"})
                continue
            have = got[k]
            if k == "ptr":
                okf = have is want
                if not okf and isinstance(have, Sym):
                    c = eff_by_result(effs, have)
                    okf = c is not None and ("cast" in c["func"]) and c["args"] and c["args"][0] is want
            else:
                okf, _ = prove(ex, e.guard, acc, same(have, want))
            if not okf:
                v_r3.append({"field": k, "have": repr(have)[:120], "why": "value returned by an accepting reopen differs from the reopen contract"})
        fl_ = got.get("flag")
        src_fl = eff_by_result(effs, fl_)
        tags_ = sorted(getattr(a_, "tag", "?").split("::")[-1] for a_ in src_fl["args"]) if src_fl is not None and "BitOr" in src_fl["func"] else []
        if tags_ != ["MMAP", "ON_DISK"]:
            v_r3.append({"field": "flag", "have": tags_, "why": "Memory.flag of a reopened file-backed arena is not ON_DISK | MMAP (is_map_file / is_ondisk would misreport)"})
        hp = got.get("header_ptr")
        okh = False
        if isinstance(hp, Enum) and hp.discr == 0 and 0 in hp.variants:
            okh, _ = prove(ex, e.guard, acc, z64(hp.variants[0][0]) == f["hoff"])
        if not okh:
            v_r3.append({"field": "header_ptr", "why": "header is not located at Left(align8(reserved) + 8) inside the mapping"})
    base = {"function": fname, "paths": n_paths, "ok_paths": n_ok}
    obs = []
    if readonly:
        obs.append(dict(base, id="R4", text="%s: a read-only reopen stores nothing, never changes the file length, and returns the layout of the file with read_only = true and the freelist kind read from the file" % label,
                        holds=not (v_r1 or v_r2 or v_r3), witnesses=(v_r1 + v_r2 + v_r3)[:4]))
    else:
        obs.append(dict(base, id="R1", text="%s: reopening an existing file zeroes exactly [stored cursor, mapping length) and stores nothing else (paths with zeroing: %d, without: %d)" % (label, n_zeroing, n_nozero),
                        holds=not v_r1, witnesses=v_r1[:4], vacuous=(n_zeroing == 0 or n_nozero == 0)))
        obs.append(dict(base, id="R2", text="%s: the file is only ever grown (set_len sites checked: %d) and no other file-level mutator is called" % (label, n_setlen),
                        holds=not v_r2, witnesses=v_r2[:4]))
        obs.append(dict(base, id="R3", text="%s: the Memory returned by a writable reopen has cap/reserved/data_offset/header/ptr/unify/read_only/freelist/magic_version as the reopen contract states" % label,
                        holds=not v_r3, witnesses=v_r3[:4]))
    return obs


def check_file_open(mir_text, src):
    """R6: Options::open reports an existing file as existing (so that the reopen branch, not the initialising
    branch, runs on it) and never calls set_len on it"""
    def init(ex, prog, fr):
        opts = Sym("opts", "options::Options")
        fr.locals[900] = opts
        fr.locals[1] = LocalRef(("E",), 900, [])
        fr.locals[2] = Sym("path", "P")
        return {"opts": opts}

    prog, ex, ends, ctx, fname = explore(mir_text, src, r"^open_options::<impl at [^>]*>::open$", init)
    opts = ctx["opts"]
    viol = []
    n_paths = n_ok = n_exist = n_new = 0
    for e in ends:
        if e.kind != "done":
            continue
        n_paths += 1
        effs = e.stack[0].locals.get("EFF", ())
        is_err = is_err_of(e.info)
        cn = opt_field(prog, opts, "create_new")
        cr = opt_field(prog, opts, "create")
        ex_calls = [x for x in effs if x["func"].endswith("::exists") and isinstance(x["result"], z3.BoolRef)]
        if cn is None:
            viol.append({"why": "create_new is not consulted"})
            continue
        not_cn = z3.Not(cn)
        if cr is None:
            existed = None  # the path returned before looking at `create`: only possible under create_new
        elif ex_calls:
            existed = z3.And(not_cn, z3.Or(z3.Not(cr), ex_calls[-1]["result"]))
        else:
            existed = z3.And(not_cn, z3.Not(cr))
        if feasible(ex, e.guard, [z3.Not(is_err)]) != z3.sat:
            continue
        n_ok += 1
        tup = e.info.variants[0][0]
        flag = tup.f[0] if isinstance(tup, Tup) else None
        if not isinstance(flag, (z3.BoolRef, bool)):
            viol.append({"why": "result is not (bool, File)"})
            continue
        if isinstance(flag, bool):
            flag = z3.BoolVal(flag)
        if existed is not None and feasible(ex, e.guard, [z3.Not(is_err), existed]) == z3.sat:
            n_exist += 1
            ok, _ = prove(ex, e.guard, [z3.Not(is_err), existed], z3.Not(flag))
            if not ok:
                viol.append({"why": "an existing file can be reported as newly created: the open would wipe and re-initialise it"})
            for x in effs:
                if "set_len" in x["func"] or any(m in x["func"] for m in FILE_MUTATORS):
                    viol.append({"call": x["func"], "why": "file-level mutator inside Options::open on an existing file"})
        fresh_c = z3.Not(existed) if existed is not None else z3.BoolVal(True)
        if feasible(ex, e.guard, [z3.Not(is_err), fresh_c]) == z3.sat:
            n_new += 1
            ok, _ = prove(ex, e.guard, [z3.Not(is_err), fresh_c], flag)
            if not ok:
                viol.append({"why": "a file that did not exist can be reported as existing (its header would never be written)"})
    return [dict(function=fname, paths=n_paths, ok_paths=n_ok, id="R6",
                 text="Options::open: a file that exists (create_new unset, and create unset or Path::exists) is reported as existing and is not resized or rewritten by the open itself; a new file is reported as new (accepting paths: existing %d, new %d)" % (n_exist, n_new),
                 holds=not viol, witnesses=viol[:4], vacuous=(n_exist == 0 or n_new == 0))]


def struct_field_types(src, fname, sname):
    """field name -> declared type text of `struct sname` in src/fname (source text, comments and attributes skipped)"""
    import os
    txt = open(os.path.join(src, fname)).read()
    m = re.search(r"\bstruct\s+%s(?:<[^{]*>)?\s*\{(.*?)\n\}" % sname, txt, re.S)
    if not m:
        raise Unsupported("struct %s not found in %s" % (sname, fname))
    body = re.sub(r"//[^\n]*", "", m.group(1))
    body = re.sub(r"#\[[^\]]*\]", "", body)
    out = {}
    for part in mir.split_top(body):
        mm = re.match(r"\s*(?:pub(?:\([a-z]+\))?\s+)?([a-z_][A-Za-z0-9_]*)\s*:\s*(.+?)\s*$", part, re.S)
        if mm:
            out[mm.group(1)] = re.sub(r"\s+", " ", mm.group(2))
    return out


ARENA_FROM = (("freelist", "freelist"), ("reserved", "reserved"), ("cap", "cap"), ("unify", "unify"), ("magic_version", "magic_version"),
              ("version", "version"), ("ro", "read_only"), ("max_retries", "max_retries"), ("data_offset", "data_offset"))


def check_arena_from(mir_text, src, flavour):
    """R7: the arena value built from the (re)opened Memory reports the Memory's values, and building it stores nothing"""
    types = struct_field_types(src, "memory.rs", "Memory")

    def init(ex, prog, fr):
        names = prog.structs.get(("memory", "Memory"))
        if not names:
            raise Unsupported("struct Memory not found")
        vals = []
        for n in names:
            ty = types.get(n, "?")
            ty = {"usize": "usize"}.get(ty, ty)
            vals.append(ex.synth(ty, "mem." + n))
        fr.locals[1] = Tup(vals)
        return {"mem": dict(zip(names, vals))}

    prog, ex, ends, ctx, fname = explore(mir_text, src, r"^%s::<impl at [^>]*>::from$" % flavour, init)
    mem = ctx["mem"]
    anames = prog.structs.get((flavour, "Arena"))
    if not anames:
        raise Unsupported("struct %s::Arena not found" % flavour)
    viol = []
    n_paths = n_ok = 0
    for e in ends:
        if e.kind != "done":
            continue
        n_paths += 1
        if feasible(ex, e.guard) != z3.sat:
            continue
        n_ok += 1
        effs = e.stack[0].locals.get("EFF", ())
        for x in effs:
            if x["kind"] == "write":
                viol.append({"call": x["func"], "why": "store while building the arena value from the opened Memory"})
        ar = e.info
        if not isinstance(ar, Tup) or len(ar.f) != len(anames):
            viol.append({"why": "result is not an Arena aggregate"})
            continue
        got = dict(zip(anames, ar.f))
        for an, mn in ARENA_FROM:
            if an not in got or mn not in mem:
                viol.append({"field": an, "why": "field missing (Arena.%s / Memory.%s)" % (an, mn)})
                continue
            have, want = got[an], mem[mn]
            if isinstance(have, z3.BitVecRef) and isinstance(want, z3.BitVecRef) and have.size() < want.size():
                want = z3.Extract(have.size() - 1, 0, want)
            if isinstance(want, (Sym,)) or isinstance(have, Sym):
                okf = have is want
            elif an == "unify":
                # Memory::unify() is `self.unify || flag.contains(ON_DISK)`: a Memory whose unify field is set (every file-backed one) must be reported unified
                okf, _ = prove(ex, e.guard, [want], same(have, True))
            else:
                okf, _ = prove(ex, e.guard, [], same(have, want))
            if not okf:
                viol.append({"field": an, "have": repr(have)[:100], "why": "the arena does not report the opened Memory's `%s`" % mn})
    return [dict(function=fname, paths=n_paths, ok_paths=n_ok, id="R7" + ("s" if flavour == "sync" else "u"),
                 text="%s::Arena::from(Memory): freelist, reserved, cap, unify, magic_version, version, read-only flag, max_retries and data_offset of the arena are the opened Memory's, nothing is stored" % flavour,
                 holds=not viol, witnesses=viol[:4])]


def check_mmap_options(mir_text, src):
    """R9: Options::to_mmap_options (what the writable opens and truncate hand to mmap): the mapping starts at Options::offset
    (offset(o) called iff o > 0, with o) and has the length of the capacity option (len(cap) called iff a capacity is given)"""
    def init(ex, prog, fr):
        opts = Sym("opts", "options::Options")
        fr.locals[900] = opts
        fr.locals[1] = LocalRef(("E",), 900, [])
        return {"opts": opts}

    prog, ex, ends, ctx, fname = explore(mir_text, src, r"^open_options::<impl at [^>]*>::to_mmap_options$", init)
    opts = ctx["opts"]
    viol = []
    n = 0
    for e in ends:
        if e.kind != "done":
            continue
        if feasible(ex, e.guard) != z3.sat:
            continue
        n += 1
        effs = e.stack[0].locals.get("EFF", ())
        new = [x for x in effs if x["func"].endswith("MmapOptions::new")]
        if not new or e.info is not new[0]["result"]:
            viol.append({"why": "the returned MmapOptions is not the one built in the function"})
        off = opt_field(prog, opts, "offset")
        capo = opt_field(prog, opts, "capacity")
        if off is None or not isinstance(capo, Enum):
            viol.append({"why": "Options::offset / Options::capacity not consulted"})
            continue
        offs = [x for x in effs if x["func"].endswith("MmapOptions::offset")]
        lens = [x for x in effs if x["func"].endswith("MmapOptions::len")]
        cd = capo.discr if not isinstance(capo.discr, int) else bv(capo.discr, 64)
        if offs:
            ok, _ = prove(ex, e.guard, [], z3.And(z64(offs[-1]["args"][1]) == z64(off), z3.UGT(z64(off), 0)))
        else:
            ok, _ = prove(ex, e.guard, [], z64(off) == 0)
        if not ok or len(offs) > 1:
            viol.append({"why": "the mapping does not start at Options::offset"})
        if lens:
            some = capo.variants[1][0]
            ok, _ = prove(ex, e.guard, [], z3.And(cd == 1, z64(lens[-1]["args"][1]) == z64(some)))
        else:
            ok, _ = prove(ex, e.guard, [], cd == 0)
        if not ok or len(lens) > 1:
            viol.append({"why": "the mapping length is not the capacity option (or a length is set without one)"})
    return [dict(function=fname, paths=n, ok_paths=n, id="R9",
                 text="Options::to_mmap_options: mapping offset = Options::offset (set iff > 0), mapping length = the capacity option (set iff given)",
                 holds=not viol and n > 0, witnesses=viol[:4], vacuous=(n < 4))]


WRAPPERS = (("map_mut", "map_mut_in", "mmap_mut"), ("map_mut_with_path_builder", "map_mut_in", "mmap_mut"),
            ("map_copy", "map_mut_in", "mmap_copy"), ("map_copy_with_path_builder", "map_mut_in", "mmap_copy"),
            ("map", "map_in", "mmap"), ("map_with_path_builder", "map_in", "mmap"),
            ("map_copy_read_only", "map_in", "mmap_copy_read_only"), ("map_copy_read_only_with_path_builder", "map_in", "mmap_copy_read_only"))


class WrapExec(RExec):
    """map_mut_in / map_in are decided by R1-R4: opaque here, so that the arguments the wrappers hand them can be read off"""

    def call(self, stk, fr, t, cnd):
        func = t.a["func"]
        meth = sym.strip_generics(func).split("::")[-1]
        if meth in ("map_mut_in", "map_in") and t.a["target"] is not None:
            args = [self.operand(stk, fr, a) for a in t.a["args"]]
            v = self.synth("Result<Memory, std::io::Error>", meth)
            self.add_effect(stk, {"kind": "call", "func": "Memory::" + meth, "result": v, "args": args})
            self.write_place(stk, fr, t.a["dest"], v)
            fr.bb = t.a["target"]
            return None
        return RExec.call(self, stk, fr, t, cnd)


def check_wrappers(mir_text, src):
    """R10: each public open function reaches the open routine with the mapping helper of its mode (shared writable,
    private copy-on-write, read-only, private read-only) and with the caller's Options unchanged"""
    prog = sym.Program(mir_text, src)
    cfg = {"mir_text": mir_text, "mem_layouts": {}, "layouts": {("size_of", "H"): H_SIZE, ("align_of", "H"): 8}, "summaries": {}}
    viol = []
    total = 0
    done = []
    for wname, inner, helper in WRAPPERS:
        names = [n for n in prog.raw if re.search(r"^memory::<impl at [^>]*>::%s$" % wname, n)]
        if len(names) != 1:
            viol.append({"function": wname, "why": "wrapper not found / ambiguous"})
            continue
        ex = WrapExec(prog, cfg)
        fn = prog.fn(names[0])
        fr = Frame(fn, ("E",), {}, gen=["H"])
        opts = Sym("opts", "options::Options")
        fr.locals[1] = Sym("path_or_builder", "P")
        fr.locals[2] = opts
        try:
            ends = ex.run([fr], [])
        except Unsupported as u:
            viol.append({"function": wname, "why": "not explored: %s" % u})
            continue
        seen = False
        for e in ends:
            if e.kind != "done":
                continue
            total += 1
            effs = e.stack[0].locals.get("EFF", ())
            calls = [x for x in effs if x["func"] in ("Memory::map_mut_in", "Memory::map_in")]
            if not calls:
                continue  # the path builder failed before any open
            seen = True
            c = calls[-1]
            tag = getattr(c["args"][2], "tag", repr(c["args"][2])) if len(c["args"]) == 3 else "?"
            hname = tag.replace("fnitem", "").split("::")[-1].strip()
            if c["func"] != "Memory::" + inner or hname != helper or len(calls) != 1:
                viol.append({"function": wname, "calls": c["func"], "helper": tag[-60:], "why": "%s must reach %s with the `%s` mapping helper" % (wname, inner, helper)})
            if c["args"][1] is not opts:
                viol.append({"function": wname, "why": "the caller's Options are not passed on unchanged"})
        if seen:
            done.append(wname)
    return [dict(function="memory::<impl>::{%s}" % ", ".join(w for w, _, _ in WRAPPERS), paths=total, ok_paths=total, id="R10",
                 text="open wrappers: map_mut* -> map_mut_in(mmap_mut), map_copy* -> map_mut_in(mmap_copy), map* -> map_in(mmap), map_copy_read_only* -> map_in(mmap_copy_read_only), Options passed on unchanged (wrappers explored: %d)" % len(done),
                 holds=not viol, witnesses=viol[:4], vacuous=(len(done) < len(WRAPPERS)))]


def check_flush(mir_text, src):
    """R8: the explicit flush family only ever asks the map object to write back: no store into the mapping, no file-level mutator,
    so "with or without an explicit flush" cannot change what a later reopen finds"""
    types = struct_field_types(src, "memory.rs", "Memory")
    viol = []
    done = []
    total_paths = 0
    fname0 = None
    for pat in ("flush", "flush_async", "flush_range", "flush_async_range", "flush_header_and_range", "flush_async_header_and_range"):
        def init(ex, prog, fr):
            names = prog.structs.get(("memory", "Memory"))
            be = prog.enums.get("MemoryBackend")
            if not names or not be:
                raise Unsupported("Memory / MemoryBackend declarations not found")
            d = z3.BitVec("backend_discr", 64)
            ex.side.append(z3.ULT(d, len(be)))
            vals = []
            for n in names:
                if n == "backend":
                    vals.append(Enum("MemoryBackend", d, {i: Lazy("backend.%s" % v) for i, v in enumerate(be)}))
                else:
                    vals.append(ex.synth(types.get(n, "?"), "self." + n))
            fr.locals[900] = Tup(vals)
            fr.locals[1] = LocalRef(("E",), 900, [])
            if len(fr.fn.arg_types) >= 3:
                fr.locals[2] = z3.BitVec("offset", 64)
                fr.locals[3] = z3.BitVec("len", 64)
            return {"before": vals}
        try:
            prog, ex, ends, ctx, fname = explore(mir_text, src, r"^memory::<impl at [^>]*>::%s$" % pat, init)
        except Unsupported as u:
            viol.append({"function": pat, "why": "not explored: %s" % u})
            continue
        fname0 = fname0 or fname
        n = 0
        for e in ends:
            if e.kind != "done":
                continue
            n += 1
            effs = e.stack[0].locals.get("EFF", ())
            for x in effs:
                if x["kind"] == "write" or "set_len" in x["func"] or any(m in x["func"] for m in FILE_MUTATORS):
                    viol.append({"function": pat, "call": x["func"], "why": "an explicit flush stores into the mapping or resizes / rewrites the file"})
            after = e.stack[0].locals[900].f
            if any(a is not b for a, b in zip(after, ctx["before"])):
                viol.append({"function": pat, "why": "an explicit flush changes a field of the Memory"})
        total_paths += n
        if n:
            done.append(pat)
    return [dict(function=fname0 or "memory::flush*", paths=total_paths, ok_paths=total_paths, id="R8",
                 text="flush family (%s): no store into the mapping, no set_len / file mutator, no Memory field changed on any path" % ", ".join(done),
                 holds=not viol, witnesses=viol[:4], vacuous=(len(done) < 6))]


def check_unmount(mir_text, src):
    def init(ex, prog, fr):
        names = prog.structs.get(("memory", "Memory"))
        if not names:
            raise Unsupported("struct Memory not found")
        be = prog.enums.get("MemoryBackend")
        if not be:
            raise Unsupported("enum MemoryBackend not found")
        d = z3.BitVec("backend_discr", 64)
        ex.side.append(z3.ULT(d, len(be)))
        backend = Enum("MemoryBackend", d, {i: Lazy("backend.%s" % n) for i, n in enumerate(be)})
        fields = []
        for n in names:
            if n == "backend":
                fields.append(backend)
            elif n == "header_ptr":
                d2 = z3.BitVec("header_ptr_discr", 64)
                ex.side.append(z3.ULE(d2, 1))
                fields.append(Enum("Either", d2, {0: Lazy("header_ptr.Left"), 1: Lazy("header_ptr.Right")}))
            elif n == "lock_meta":
                fields.append(z3.Bool("self_lock_meta"))
            elif n == "header_offset":
                fields.append(z3.BitVec("self_header_offset", 64))
            else:
                fields.append(Sym("self." + n))
        fr.locals[900] = Tup(fields)
        fr.locals[1] = LocalRef(("E",), 900, [])
        return {"backend": backend, "variants": be, "d": d}

    prog, ex, ends, ctx, fname = explore(mir_text, src, r"::unmount$", init)
    be, d = ctx["variants"], ctx["d"]
    viol = []
    n_paths = n_keep = 0
    seen = {}
    for e in ends:
        if e.kind != "done":
            continue
        n_paths += 1
        effs = e.stack[0].locals.get("EFF", ())
        names = [x["func"] for x in effs]
        for vi, vn in enumerate(be):
            if vn not in ("MmapMut", "Mmap"):
                continue
            if feasible(ex, e.guard, [d == vi]) != z3.sat:
                continue
            rod = [x for x in effs if x["func"].endswith("::load") and isinstance(x["result"], z3.BoolRef)]
            if not rod:
                viol.append({"backend": vn, "why": "remove_on_drop is not consulted"})
                continue
            keep = [d == vi, z3.Not(rod[-1]["result"])]
            if feasible(ex, e.guard, keep) != z3.sat:
                continue
            n_keep += 1
            seen[vn] = seen.get(vn, 0) + 1
            for x in effs:
                if x["kind"] == "write":
                    viol.append({"backend": vn, "call": x["func"], "why": "store on drop of a file-backed arena"})
                if "set_len" in x["func"] or any(m in x["func"] for m in FILE_MUTATORS):
                    viol.append({"backend": vn, "call": x["func"], "why": "the file is cut, removed or rewritten when the arena is dropped"})
            unmap = [i for i, n in enumerate(names) if "Box::" in n and "from_raw" in n]
            if not unmap:
                viol.append({"backend": vn, "why": "the mapping is not released on drop"})
            if vn == "MmapMut":
                sy = [i for i, n in enumerate(names) if "sync_all" in n or "sync_data" in n]
                if not sy:
                    viol.append({"backend": vn, "why": "no File::sync_all after the writable mapping is released"})
    vac = not ("MmapMut" in seen and "Mmap" in seen)
    return [dict(function=fname, paths=n_paths, ok_paths=n_keep, id="R5",
                 text="unmount: dropping a file-backed arena (not remove-on-drop) stores nothing, never cuts or removes the file, releases the mapping and syncs the writable file (paths per backend: %s)" % seen,
                 holds=not viol, witnesses=viol[:4], vacuous=vac)]


def main():
    mir_text = open(sys.argv[1]).read()
    mir_text = re.sub(r"// MIR FOR CTFE\nfn .*?^\}\n", "", mir_text, flags=re.S | re.M)
    src = sys.argv[2]
    out = {"obligations": [], "error": None}
    t0 = time.time()
    try:
        out["obligations"] += check_open(mir_text, src, "map_mut_in", r"::map_mut_in$", False)
        out["obligations"] += check_open(mir_text, src, "map_in", r"::map_in$", True)
        out["obligations"] += check_unmount(mir_text, src)
        out["obligations"] += check_file_open(mir_text, src)
        out["obligations"] += check_flush(mir_text, src)
        out["obligations"] += check_mmap_options(mir_text, src)
        out["obligations"] += check_wrappers(mir_text, src)
        out["obligations"] += check_arena_from(mir_text, src, "sync")
        out["obligations"] += check_arena_from(mir_text, src, "unsync")
    except Unsupported as e:
        out["error"] = "unsupported MIR construct: " + str(e)
    out["wall_s"] = round(time.time() - t0, 1)
    import os
    from . import effects as _E
    if os.environ.get("MIRSMT_DIFF"):
        out["second_solver"] = dict(_E.DIFF)
    json.dump(out, open(sys.argv[3], "w"), indent=1, default=str)
    print(json.dumps(out, indent=1, default=str)[:6000])


if __name__ == "__main__":
    main()
