"""Parser for rustc's textual MIR (-Zunpretty=mir) — just the subset the encoded functions use.
Anything it does not understand raises Unsupported with the offending text (the engine never guesses)."""
import re


class Unsupported(Exception):
    pass


# ---------------------------------------------------------------- AST
class Place:
    __slots__ = ("local", "proj")

    def __init__(self, local, proj):
        self.local = local  # int
        self.proj = proj  # list of ('deref',) | ('field', idx, ty) | ('downcast', variant)

    def __repr__(self):
        return "Place(_%d%s)" % (self.local, "".join(str(p) for p in self.proj))


class Operand:
    __slots__ = ("kind", "place", "const")

    def __init__(self, kind, place=None, const=None):
        self.kind, self.place, self.const = kind, place, const  # kind: copy|move|const

    def __repr__(self):
        return "Op(%s %s)" % (self.kind, self.place if self.place else self.const)


class Rvalue:
    __slots__ = ("kind", "args")

    def __init__(self, kind, *args):
        self.kind, self.args = kind, args

    def __repr__(self):
        return "Rv(%s %s)" % (self.kind, self.args)


class Stmt:
    __slots__ = ("place", "rv", "text")

    def __init__(self, place, rv, text):
        self.place, self.rv, self.text = place, rv, text


class Term:
    __slots__ = ("kind", "a", "text")

    def __init__(self, kind, text, **a):
        self.kind, self.a, self.text = kind, a, text


class Block:
    __slots__ = ("stmts", "term", "cleanup")

    def __init__(self):
        self.stmts, self.term, self.cleanup = [], None, False


class Fn:
    def __init__(self, name, header):
        self.name, self.header = name, header
        self.nargs = 0
        self.arg_types = {}
        self.local_types = {}
        self.ret_type = None
        self.blocks = {}
        self.generic = None


# ---------------------------------------------------------------- helpers
def split_top(s, sep=","):
    """split on sep at nesting depth 0 of () [] {} <>  (the > of -> is not a closer)"""
    out, depth, cur, i = [], 0, [], 0
    instr = False
    while i < len(s):
        c = s[i]
        if instr:
            cur.append(c)
            if c == "\\":
                cur.append(s[i + 1])
                i += 1
            elif c == '"':
                instr = False
        elif c == '"':
            instr = True
            cur.append(c)
        elif c in "([{<":
            depth += 1
            cur.append(c)
        elif c in ")]}":
            depth -= 1
            cur.append(c)
        elif c == ">":
            if i > 0 and s[i - 1] in "-=":
                cur.append(c)
            else:
                depth -= 1
                cur.append(c)
        elif s.startswith(sep, i) and depth == 0:
            out.append("".join(cur).strip())
            cur = []
            i += len(sep) - 1
        else:
            cur.append(c)
        i += 1
    last = "".join(cur).strip()
    if last:
        out.append(last)
    return out


def match_paren(s, i):
    """s[i] is an opener; return index of the matching closer"""
    pairs = {"(": ")", "[": "]", "{": "}", "<": ">"}
    op = s[i]
    cl = pairs[op]
    depth = 0
    j = i
    instr = False
    while j < len(s):
        c = s[j]
        if instr:
            if c == "\\":
                j += 1
            elif c == '"':
                instr = False
        elif c == '"':
            instr = True
        elif c in "([{<":
            depth += 1
        elif c in ")]}":
            depth -= 1
            if depth == 0:
                return j
        elif c == ">" and not (j > 0 and s[j - 1] in "-="):
            depth -= 1
            if depth == 0:
                return j
        j += 1
    raise Unsupported("unbalanced: " + s)


def parse_place(s):
    s = s.strip()
    m = re.fullmatch(r"_(\d+)", s)
    if m:
        return Place(int(m.group(1)), [])
    if s.startswith("(*") and s.endswith(")") and match_paren(s, 0) == len(s) - 1:
        inner = parse_place(s[2:-1])
        return Place(inner.local, inner.proj + [("deref",)])
    if s.startswith("*"):
        inner = parse_place(s[1:])
        return Place(inner.local, inner.proj + [("deref",)])
    if s.startswith("(") and s.endswith(")") and match_paren(s, 0) == len(s) - 1:
        body = s[1:-1]
        # (PLACE as Variant)
        parts = split_top(body, " as ")
        if len(parts) == 2 and re.fullmatch(r"[A-Za-z_][A-Za-z0-9_]*", parts[1]):
            inner = parse_place(parts[0])
            return Place(inner.local, inner.proj + [("downcast", parts[1])])
        # (PLACE.N: TYPE)
        colon = split_top(body, ": ")
        if len(colon) >= 2:
            left = colon[0]
            ty = ": ".join(colon[1:])
            m = re.fullmatch(r"(.*)\.(\d+)", left, re.S)
            if m:
                inner = parse_place(m.group(1))
                return Place(inner.local, inner.proj + [("field", int(m.group(2)), ty)])
    m = re.fullmatch(r"(.*)\[(_\d+|\d+ of \d+)\]", s, re.S)
    if m:
        raise Unsupported("index projection: " + s)
    raise Unsupported("place: " + s)


def parse_operand(s):
    s = s.strip()
    if s.startswith("no_retag "):
        s = s[len("no_retag "):]
    if s.startswith("copy "):
        return Operand("copy", parse_place(s[5:]))
    if s.startswith("move "):
        return Operand("move", parse_place(s[5:]))
    if s.startswith("const "):
        return Operand("const", const=s[6:].strip())
    if re.fullmatch(r"[A-Za-z_<][A-Za-z0-9_:<>, &'\[\]()@./{}#-]*", s):
        return Operand("const", const="fnitem " + s)  # a function item used as a value
    raise Unsupported("operand: " + s)


BINOPS = {"Eq", "Ne", "Lt", "Le", "Gt", "Ge", "Add", "Sub", "Mul", "AddWithOverflow", "SubWithOverflow",
          "MulWithOverflow", "AddUnchecked", "SubUnchecked", "MulUnchecked", "BitAnd", "BitOr", "BitXor",
          "Shl", "Shr", "ShlUnchecked", "ShrUnchecked", "Offset", "Div", "Rem", "Cmp"}
UNOPS = {"Not", "Neg", "PtrMetadata"}


def parse_rvalue(s):
    s = s.strip()
    if s.startswith("&raw const "):
        return Rvalue("ref", parse_place(s[len("&raw const "):]), "raw")
    if s.startswith("&raw mut "):
        return Rvalue("ref", parse_place(s[len("&raw mut "):]), "raw")
    if s.startswith("&mut "):
        return Rvalue("ref", parse_place(s[5:]), "mut")
    if s.startswith("&"):
        return Rvalue("ref", parse_place(s[1:]), "shared")
    m = re.match(r"([A-Za-z]+)\(", s)
    if m and match_paren(s, m.end() - 1) == len(s) - 1:
        name = m.group(1)
        inner = s[m.end():-1]
        if name in BINOPS:
            a, b = split_top(inner)
            return Rvalue("binop", name, parse_operand(a), parse_operand(b))
        if name in UNOPS:
            return Rvalue("unop", name, parse_operand(inner))
        if name == "discriminant":
            return Rvalue("discriminant", parse_place(inner))
    # cast: OPERAND as TYPE (Kind)
    m = re.fullmatch(r"(.*) as (.*) \(([A-Za-z]+(?:\(.*\))?)\)", s, re.S)
    if m and (m.group(1).startswith(("copy ", "move ", "const "))):
        return Rvalue("cast", parse_operand(m.group(1)), m.group(2).strip(), m.group(3))
    if s.startswith(("copy ", "move ", "const ", "no_retag ")):
        return Rvalue("use", parse_operand(s))
    if s == "[]":
        return Rvalue("array", [])
    if s.startswith("(") and match_paren(s, 0) == len(s) - 1:
        inner = s[1:-1].strip()
        elems = split_top(inner) if inner else []
        return Rvalue("tuple", [parse_operand(e) for e in elems])
    if s.startswith("{closure@") or s.startswith("{coroutine"):
        j = match_paren(s, 0)
        rest = s[j + 1:].strip()
        caps = []
        if rest.startswith("{") and rest.endswith("}"):
            for f in split_top(rest[1:-1]):
                if ": " in f:
                    fn_, val = f.split(": ", 1)
                    caps.append((fn_.strip(), parse_operand(val)))
        return Rvalue("closure", s[: j + 1], caps)
    # ADT aggregate:  Path::Variant(ops) | Path::Variant { f: op } | Path { f: op } | Path::Variant
    m = re.fullmatch(r"(.+?)\s*\{(.*)\}", s, re.S)
    if m and not m.group(1).rstrip().endswith(("=", "-")):
        path = m.group(1).strip()
        fields = []
        for f in split_top(m.group(2)):
            fn_, val = f.split(": ", 1)
            fields.append((fn_.strip(), parse_operand(val)))
        return Rvalue("adt", path, fields, "named")
    if s.endswith(")"):
        # find the opening paren of the final argument list
        depth = 0
        i = len(s) - 1
        while i >= 0:
            if s[i] == ")":
                depth += 1
            elif s[i] == "(":
                depth -= 1
                if depth == 0:
                    break
            i -= 1
        path = s[:i].strip()
        inner = s[i + 1:-1].strip()
        if path and re.search(r"[A-Za-z_>]$", path):
            ops = [parse_operand(e) for e in split_top(inner)] if inner else []
            return Rvalue("adt", path, [(str(k), o) for k, o in enumerate(ops)], "tuple")
    if re.fullmatch(r"[A-Za-z_<>:, &'\[\]()0-9@./{}#-]+", s):
        return Rvalue("adt", s, [], "unit")
    raise Unsupported("rvalue: " + s)


CALL_RE = re.compile(r"^(.*?)\s*->\s*(\[return: bb(\d+)(?:, unwind[^\]]*)?\]|unwind [a-z()]+|\[unwind[^\]]*\])\s*$", re.S)


def parse_call(s):
    """FUNC(ARGS) -> (func, [operands])"""
    s = s.strip()
    if not s.endswith(")"):
        raise Unsupported("call: " + s)
    depth = 0
    i = len(s) - 1
    while i >= 0:
        if s[i] == ")":
            depth += 1
        elif s[i] == "(":
            depth -= 1
            if depth == 0:
                break
        i -= 1
    func = s[:i].strip()
    inner = s[i + 1:-1].strip()
    args = [parse_operand(a) for a in split_top(inner)] if inner else []
    return func, args


def parse_line(ln):
    """returns Stmt or Term or None"""
    ln = ln.strip()
    if ln.endswith(";"):
        ln = ln[:-1]
    if ln in ("ConstEvalCounter", "nop") or ln.startswith(("StorageLive(", "StorageDead(", "PlaceMention(", "FakeRead(", "Retag(", "Coverage::", "AscribeUserType(", "BackwardIncompatibleDropHint")):
        return None
    if ln == "return":
        return Term("return", ln)
    if ln == "unreachable":
        return Term("unreachable", ln)
    if ln in ("resume", "unwind terminate", ) or ln.startswith("terminate"):
        return Term("resume", ln)
    m = re.fullmatch(r"goto -> bb(\d+)", ln)
    if m:
        return Term("goto", ln, target=int(m.group(1)))
    m = re.fullmatch(r"switchInt\((.*)\) -> \[(.*)\]", ln, re.S)
    if m:
        targets, otherwise = [], None
        for t in split_top(m.group(2)):
            k, v = t.split(": ")
            v = int(v[2:])
            if k == "otherwise":
                otherwise = v
            else:
                targets.append((int(k), v))
        return Term("switch", ln, op=parse_operand(m.group(1)), targets=targets, otherwise=otherwise)
    m = re.fullmatch(r"assert\((.*)\) -> \[success: bb(\d+), unwind[^\]]*\]", ln, re.S)
    if m:
        parts = split_top(m.group(1))
        cond = parts[0]
        neg = cond.startswith("!")
        if neg:
            cond = cond[1:]
        return Term("assert", ln, cond=parse_operand(cond), neg=neg, msg=parts[1] if len(parts) > 1 else "", target=int(m.group(2)))
    m = re.fullmatch(r"drop\((.*)\) -> \[return: bb(\d+), unwind[^\]]*\]", ln, re.S)
    if m:
        return Term("drop", ln, place=parse_place(m.group(1)), target=int(m.group(2)))
    m = re.fullmatch(r"(.*?) = (.*)", ln, re.S)
    if not m:
        raise Unsupported("statement: " + ln)
    lhs, rhs = m.group(1), m.group(2)
    mc = CALL_RE.match(rhs)
    if mc:
        func, args = parse_call(mc.group(1))
        tgt = int(mc.group(3)) if mc.group(3) else None
        return Term("call", ln, dest=parse_place(lhs), func=func, args=args, target=tgt)
    return Stmt(parse_place(lhs), parse_rvalue(rhs), ln)


HDR_RE = re.compile(r"^fn (.*)\((.*)\) -> (.*) \{$", re.S)


def parse_functions(text, want=None):
    """text: full MIR dump. Returns {name: Fn}. `want`: predicate on the name (parse lazily)."""
    fns = {}
    raw = {}
    for m in re.finditer(r"^fn (.*?) \{\n(.*?)^\}\n", text, re.S | re.M):
        hdr, body = m.group(1), m.group(2)
        # name = everything before the top-level '(' that starts the argument list
        depth, i, name_end = 0, 0, None
        while i < len(hdr):
            c = hdr[i]
            if c in "<[{":
                depth += 1
            elif c in "]}":
                depth -= 1
            elif c == ">" and not (i > 0 and hdr[i - 1] in "-="):
                depth -= 1
            elif c == "(" and depth == 0:
                name_end = i
                break
            i += 1
        if name_end is None:
            continue
        name = hdr[:name_end]
        raw[name] = (hdr, body, name_end)
    for m in re.finditer(r"^(?:const|static) ([^\n]*?): ([^\n]*?) = \{\n(.*?)^\}\n", text, re.S | re.M):
        raw["const " + m.group(1)] = ("const", m.group(3), None, m.group(2))
    return raw


def build_fn(name, rawent):
    if rawent[0] == "const":
        fn = Fn(name, name)
        body = rawent[1]
        fn.ret_type = rawent[3]
    else:
        hdr, body, name_end = rawent
        fn = Fn(name, hdr)
        j = match_paren(hdr, name_end)
        argstr = hdr[name_end + 1:j]
        fn.ret_type = hdr[j + 1:].strip()[2:].strip() if "->" in hdr[j + 1:] else "()"
        for a in split_top(argstr):
            ma = re.match(r"(?:mut )?_(\d+): (.*)", a, re.S)
            if not ma:
                raise Unsupported("arg: " + a)
            fn.arg_types[int(ma.group(1))] = ma.group(2)
        fn.nargs = len(fn.arg_types)
    cur = None
    pending = ""
    for ln in body.split("\n"):
        s = ln.strip()
        if not s or s.startswith(("debug ", "scope ", "}")) and cur is None:
            continue
        ml = re.match(r"let (?:mut )?_(\d+): (.*);$", s)
        if ml and cur is None:
            fn.local_types[int(ml.group(1))] = ml.group(2)
            continue
        mb = re.match(r"bb(\d+)( \(cleanup\))?: \{$", s)
        if mb:
            cur = Block()
            cur.cleanup = bool(mb.group(2))
            fn.blocks[int(mb.group(1))] = cur
            continue
        if s == "}":
            cur = None
            continue
        if cur is None:
            continue
        pending = (pending + " " + s).strip() if pending else s
        if not pending.endswith(";"):
            continue
        line, pending = pending, ""
        if cur.cleanup:
            continue  # cleanup blocks are only reached by unwinding, which the engine reports as `panicked`
        item = parse_line(line)
        if item is None:
            continue
        if isinstance(item, Stmt):
            cur.stmts.append(item)
        else:
            cur.term = item
    return fn
