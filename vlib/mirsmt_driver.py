"""Engine M driver: MIR dump of /repo's current tree -> query families -> worker processes (one SAT problem
each) -> native replay of every counterexample through the cfg(rarena_verif) hook -> triage."""
import os, re, json, subprocess, time, shutil, concurrent.futures as cf
from . import common as C

PY = "python3-vt"
FEATURES_MIR = ["--no-default-features", "--features", "alloc"]

# ------------------------------------------------------------------------------------------------ families
# setup programs (thread 0, runs first and alone, from the freshly created arena; CAP = 96, data area [32, 96))
#   S_HN : a(16) b(24 -> handed to T2) c(24); free a        => full arena, free list [32: size 8], T2 holds [48, 72)
#   S_H  : a(24) b(8 -> handed to T2) c(32); free a          => full arena, free list [32: size 16], T2 holds [56, 64)
#   S_2  : a(16) b(8 -> T2) c(24) d(16); free a; free c      => full arena, free list of two nodes, T2 holds [48, 56)
#   S_E  : a(16 -> T2)                                       => 48 bytes of fresh space left, empty list, T2 holds [32, 48)
SETUPS = {
    "S_HN": ([["alloc_bytes", 2], ["alloc_bytes", 3, "handover"], ["alloc_bytes", 4], ["free_slot", 0]], {"0": 16, "1": 24, "2": 24}, (48, 24)),
    "S_H": ([["alloc_bytes", 2], ["alloc_bytes", 3, "handover"], ["alloc_bytes", 4], ["free_slot", 0]], {"0": 24, "1": 8, "2": 32}, (56, 8)),
    "S_2": ([["alloc_bytes", 2], ["alloc_bytes", 3, "handover"], ["alloc_bytes", 4], ["alloc_bytes", 5], ["free_slot", 0], ["free_slot", 2]],
            {"0": 16, "1": 8, "2": 24, "3": 16}, (48, 8)),
    "S_E": ([["alloc_bytes", 2, "handover"]], {"0": 16}, (32, 16)),
    # S_T : a(24) b(24 -> T2) c(16); free a  => full arena, free list [32: size 16], T2 holds [56, 80) (a block that becomes a 16-byte segment)
    "S_T": ([["alloc_bytes", 2], ["alloc_bytes", 3, "handover"], ["alloc_bytes", 4], ["free_slot", 0]], {"0": 24, "1": 24, "2": 16}, (56, 24)),
}
SETUP_STEPS = {"S_HN": 24, "S_H": 24, "S_2": 36, "S_E": 8, "S_T": 24}
ALLOC = [["alloc_bytes", 2]]
ALLOC_FREE = [["alloc_bytes", 2], ["free_last"]]
ALLOC_ALLOC = [["alloc_bytes", 2], ["alloc_bytes", 3]]
DEALLOC = [["free_given", 2, 3, 0]]
DEALLOC_ALLOC = [["free_given", 2, 3, 0], ["alloc_bytes", 4]]
TOUCH_DEALLOC = [["touch_given", 2, 3], ["free_given", 2, 3, 0]]
TYPED_U64_FREE = [["alloc_typed", "u64"], ["free_last"]]
ALIGNED_U32_FREE = [["alloc_aligned", 2, "u32"], ["free_last"]]
ALLOC_DROP = [["alloc_bytes", 2], ["check_last"], ["drop_arena"]]
TOUCH_DROP = [["touch_given", 2, 3], ["clone_drop"], ["drop_arena"]]


class Q:
    def __init__(self, name, props, tier, kind, freelist, setup, p1, p2, steps, switches, first, n1=(1, 24), n2=None, timeout=1800, role=None,
                 selftest=False, retries=1, p3=None, plan=None, min_seg=8):
        self.name, self.props, self.tier, self.kind = name, props, tier, kind
        self.freelist, self.setup, self.p1, self.p2 = freelist, setup, p1, p2
        self.steps, self.switches, self.first = steps, switches, first
        self.n1, self.n2, self.timeout, self.role = n1, n2, timeout, role or name
        self.selftest = selftest
        self.retries = retries
        self.p3, self.plan = p3, plan
        self.min_seg = min_seg

    def spec(self, mir, src):
        sp, sargs, given = SETUPS[self.setup]
        progs = [sp, self.p1] + ([self.p2] if self.p2 is not None else []) + ([self.p3] if self.p3 is not None else [])
        args = {"0": dict(sargs), "1": {}}
        if any(a[0] in ("alloc_bytes", "alloc_aligned") for a in self.p1):
            args["1"]["0"] = list(self.n1)
            if sum(1 for a in self.p1 if a[0] == "alloc_bytes") > 1:
                args["1"]["1"] = list(self.n2 or self.n1)
        if any(a[0] == "free_given" for a in self.p1):
            args["1"].update({"0": given[0], "1": given[1]})
        if self.p2 is not None:
            args["2"] = {}
            if any(a[0] in ("free_given", "touch_given") for a in self.p2):
                args["2"].update({"0": given[0], "1": given[1]})
                if any(a[0] == "alloc_bytes" for a in self.p2):
                    args["2"]["2"] = list(self.n2 or self.n1)
            elif any(a[0] == "alloc_bytes" for a in self.p2):
                args["2"]["0"] = list(self.n2 or self.n1)
        if self.p3 is not None:
            args["3"] = {"0": list(self.n2 or self.n1)} if any(a[0] == "alloc_bytes" for a in self.p3) else {}
        extra = {"plan": self.plan} if self.plan else {}
        if getattr(self, "exclude", None):
            extra["exclude"] = list(self.exclude)
        return {**extra, "name": self.name, "mir": mir, "src": src, "cap": 96, "freelist": self.freelist, "min_seg": self.min_seg, "retries": self.retries, "init": "fresh",
                "progs": progs, "args": args, "steps": [SETUP_STEPS[self.setup]] + self.steps, "kind": self.kind, "switches": self.switches,
                "first": self.first, "timeout_s": self.timeout, "selftest": self.selftest}

    def bounds(self):
        return ("CAP=96 unified layout, min_segment_size=%d, maximum_retries=%d, list=%s, setup=%s, programs=%s|%s, sizes in %s, <=%d context switches "
                "(first mover: thread %d), per-thread step bounds %s, <=1 spurious weak-CAS failure per thread%s" %
                (self.min_seg, self.retries, self.freelist, self.setup, json.dumps(self.p1), json.dumps(self.p2), list(self.n1), self.switches, self.first, self.steps,
                 (", third thread %s, explicit shape %s" % (json.dumps(self.p3), json.dumps(self.plan))) if self.plan else ""))


def families():
    qs = []
    # --- translator self-test (deterministic single-thread programs; prediction compared with the real code)
    qs.append(Q("selftest_setup_S_H_opt", ["C02", "C06", "C07", "C12", "C13"], "quick", "safe", "Optimistic", "S_H", [["alloc_bytes", 2], ["free_last"]], None, [30], 1, 1,
                n1=(10, 10), selftest=True, timeout=300))
    qs.append(Q("selftest_setup_S_2_opt", ["C02", "C06", "C07", "C12"], "thorough", "safe", "Optimistic", "S_2", [["alloc_bytes", 2], ["free_last"]], None, [30], 1, 1,
                n1=(10, 10), selftest=True, timeout=600))
    qs.append(Q("selftest_setup_S_HN_pess", ["C02", "C06", "C07", "C12"], "thorough", "safe", "Pessimistic", "S_HN", [["alloc_bytes", 2], ["free_last"]], None, [30], 1, 1,
                n1=(5, 5), selftest=True, timeout=300))
    # --- C02: safety under interleavings
    for fl, tag in (("Optimistic", "opt"), ("Pessimistic", "pess")):
        # (the shape alloc^a dealloc* alloc* is covered by the 3-switch family: in it the dealloc may have to wait for the
        #  interrupted alloc, so its middle chunk cannot be required to run to completion)
        qs.append(Q("safe_alloc_vs_dealloc_%s_sw2_d" % tag, ["C02"], "quick" if tag == "opt" else "thorough", "safe", fl, "S_H", ALLOC, DEALLOC, [22, 14], 2, 2))
        qs.append(Q("safe_alloc_vs_alloc_%s_sw2" % tag, ["C02"], "thorough", "safe", fl, "S_2", ALLOC, ALLOC, [24, 24], 2, 1, n1=(1, 16)))
        qs.append(Q("safe_alloc_vs_dealloc_%s_sw3" % tag, ["C02"], "thorough", "safe", fl, "S_H", ALLOC, DEALLOC, [24, 16], 3, 1, timeout=1800))
    # typed / aligned allocations served from the list (pad::<T>() + re-alignment inside the segment) against a concurrent release
    qs.append(Q("safe_typed_u64_vs_dealloc_opt_sw2", ["C02"], "thorough", "safe", "Optimistic", "S_T", TYPED_U64_FREE, DEALLOC, [30, 14], 2, 2, timeout=2400))
    qs.append(Q("safe_aligned_u32_vs_dealloc_pess_sw2", ["C02"], "thorough", "safe", "Pessimistic", "S_T", ALIGNED_U32_FREE, DEALLOC, [30, 16], 2, 2, n1=(0, 8), timeout=2400))
    # three threads: two allocators and one releaser, two pre-emptions (T1^a T2^b T3* T2* T1*)
    qs.append(Q("safe_three_threads_opt", ["C02"], "thorough", "safe", "Optimistic", "S_HN", ALLOC, DEALLOC, [22, 14, 22], 2, 1, n1=(1, 8), p3=ALLOC,
                plan=[[1, "f"], [2, "f"], [3, "s"], [2, "s"], [1, "s"]], timeout=3000))
    qs.append(Q("live_three_threads_opt", ["C07"], "thorough", "live", "Optimistic", "S_HN", ALLOC, DEALLOC, [22, 14, 22], 2, 1, n1=(1, 8), p3=ALLOC,
                plan=[[1, "f"], [2, "f"], [3, "s"], [2, "s"], [1, "s"]], timeout=3000))
    # a thread that still holds a reference to a node another thread has popped, filled and will check (stale reference)
    qs.append(Q("safe_allocfree_vs_alloc_opt_sw3_stale", ["C02"], "thorough", "safe", "Optimistic", "S_HN", ALLOC_FREE, ALLOC, [30, 22], 3, 2, n1=(1, 8), timeout=3000))
    qs.append(Q("safe_allocfree_vs_alloc_pess_sw3_stale", ["C02"], "thorough", "safe", "Pessimistic", "S_HN", ALLOC_FREE, ALLOC, [30, 24], 3, 2, n1=(1, 8), timeout=2400))
    qs.append(Q("safe_bump_vs_toprelease_none_sw2", ["C02"], "quick", "safe", "None", "S_E", ALLOC_FREE, DEALLOC_ALLOC, [14, 14], 2, 1, n1=(1, 24)))
    qs.append(Q("safe_bump_vs_toprelease_none_sw3", ["C02"], "quick", "safe", "None", "S_E", ALLOC_FREE, DEALLOC_ALLOC, [14, 14], 3, 2, n1=(1, 24)))
    qs.append(Q("safe_bump_vs_toprelease_opt_sw3", ["C02"], "thorough", "safe", "Optimistic", "S_E", ALLOC_FREE, DEALLOC_ALLOC, [16, 18], 3, 2, n1=(1, 24), timeout=1800))
    # --- C07: no operation waits for ever
    qs.append(Q("live_alloc_vs_dealloc_opt_sw2_d", ["C07"], "quick", "live", "Optimistic", "S_HN", ALLOC, DEALLOC, [22, 14], 2, 2, n1=(1, 24), role="waiter_after_pop"))
    qs.append(Q("live_alloc_vs_dealloc_opt_sw3", ["C07"], "thorough", "live", "Optimistic", "S_HN", ALLOC, DEALLOC, [24, 16], 3, 1, n1=(1, 24), role="waiter_after_pop", timeout=2400))
    # minimum_segment_size = 0: a released block that only just holds a node header must not become a zero-sized node
    qs.append(Q("live_alloc_vs_dealloc_opt_sw2_d_minseg0", ["C07"], "quick", "live", "Optimistic", "S_H", ALLOC, DEALLOC, [22, 14], 2, 2, n1=(1, 24), min_seg=0))
    qs.append(Q("live_alloc_vs_dealloc_pess_sw3", ["C07"], "thorough", "live", "Pessimistic", "S_HN", ALLOC, DEALLOC, [24, 16], 3, 1, n1=(1, 24), role="waiter_after_pop"))
    qs.append(Q("live_alloc_vs_dealloc_opt_sw3_d", ["C07"], "thorough", "live", "Optimistic", "S_HN", ALLOC, DEALLOC, [24, 16], 3, 2, n1=(1, 24)))
    # an allocation whose unlink CAS loses against a concurrent insertion at the head, followed by one more allocation
    qs.append(Q("live_allocalloc_vs_dealloc_opt_sw2", ["C07"], "thorough", "live", "Optimistic", "S_HN", ALLOC_ALLOC, DEALLOC, [44, 14], 2, 1, n1=(1, 8), n2=(1, 8),
                role="abandoned_mark", timeout=3000))
    qs.append(Q("live_allocalloc_vs_dealloc_pess_sw2", ["C07"], "thorough", "live", "Pessimistic", "S_HN", ALLOC_ALLOC, DEALLOC, [44, 16], 2, 1, n1=(1, 8), n2=(1, 8),
                role="abandoned_mark", timeout=3000))
    qs.append(Q("live_alloc_vs_alloc_opt_sw2", ["C07"], "thorough", "live", "Optimistic", "S_2", ALLOC, ALLOC, [24, 24], 2, 1, n1=(1, 16), timeout=2400))
    qs.append(Q("live_bump_vs_toprelease_none_sw3", ["C07"], "quick", "live", "None", "S_E", ALLOC_FREE, DEALLOC_ALLOC, [14, 14], 3, 1, n1=(1, 24)))
    qs.append(Q("live_bump_none_sw2", ["C07"], "thorough", "live", "None", "S_E", ALLOC_FREE, DEALLOC_ALLOC, [14, 14], 2, 1))
    # --- C12: happens-before between the previous owner, the arena's zeroing and the next owner
    qs.append(Q("hb_dealloc_then_alloc_opt_sw2", ["C12"], "quick", "hb", "Optimistic", "S_HN", ALLOC_FREE, TOUCH_DEALLOC, [30, 15], 2, 2, n1=(1, 16)))
    qs.append(Q("hb_toprelease_then_bump_none_sw2", ["C12"], "quick", "hb", "None", "S_E", ALLOC_FREE, TOUCH_DEALLOC, [14, 7], 2, 2, n1=(1, 24)))
    qs.append(Q("hb_dealloc_then_alloc_pess_sw2", ["C12"], "thorough", "hb", "Pessimistic", "S_HN", ALLOC_FREE, TOUCH_DEALLOC, [30, 17], 2, 2, n1=(1, 16)))
    qs.append(Q("hb_dealloc_then_alloc_opt_sw3", ["C12"], "thorough", "hb", "Optimistic", "S_HN", ALLOC_FREE, TOUCH_DEALLOC, [30, 17], 3, 1, n1=(1, 16), timeout=1800))
    # --- C12 / C13: teardown - two threads each hold an arena value, use the memory, and drop it
    qs.append(Q("teardown_two_holders_sw2", ["C12", "C13"], "quick", "teardown", "None", "S_E", ALLOC_DROP, TOUCH_DROP, [12, 12], 2, 1, n1=(1, 24)))
    qs.append(Q("teardown_two_holders_sw3", ["C12", "C13"], "thorough", "teardown", "None", "S_E", ALLOC_DROP, TOUCH_DROP, [12, 12], 3, 2, n1=(1, 24)))
    # --- C06: crash of the victim at any step of its operation, reopen, one more operation by a fresh thread
    qs.append(Q("crash_in_alloc_opt", ["C06"], "quick", "crash", "Optimistic", "S_H", ALLOC, ALLOC, [22, 22], 1, 1, n1=(1, 16), role="crash_between_mark_and_unlink"))
    qs.append(Q("crash_in_dealloc_opt", ["C06"], "quick", "crash", "Optimistic", "S_HN", DEALLOC, ALLOC, [14, 22], 1, 1, n1=(1, 24)))
    qs.append(Q("crash_in_alloc_pess", ["C06"], "thorough", "crash", "Pessimistic", "S_H", ALLOC, ALLOC, [24, 24], 1, 1, n1=(1, 16), role="crash_between_mark_and_unlink"))
    qs.append(Q("crash_in_dealloc_pess", ["C06"], "thorough", "crash", "Pessimistic", "S_HN", DEALLOC, ALLOC, [16, 24], 1, 1, n1=(1, 24)))
    qs.append(Q("crash_in_bump_none", ["C06"], "thorough", "crash", "None", "S_E", ALLOC, ALLOC, [10, 10], 1, 1, n1=(1, 24)))
    return qs


class EffectsQ:
    """effects mode over the open path (memory.rs map_mut_in / map_in and their closures), memmap-feature MIR"""
    name, props, tier, kind, timeout, selftest = "effects_open_path", ["C09"], "quick", "effects", 600, False
    module, native_flag, min_obligations = "mirsmt.effects", "--open-check", 3
    cross_check = True

    def bounds(self):
        return ("all paths of map_mut_in / map_in and their closures (no loops in them), callees outside the crate opaque, "
                "sanity_check / write_sanity summarised (decided by Engine K), cleanup (unwinding) paths not followed")


class ReopenQ(EffectsQ):
    """effects mode over the reopen and drop paths (memory.rs map_mut_in / map_in with their closures, unmount; Options::open; Arena::from): obligations R1-R7 of C05"""
    name, props = "effects_reopen_path", ["C05", "C06", "C08", "C09"]
    module, native_flag, min_obligations = "mirsmt.reopen", "--reopen-check", 11
    cross_check = True
    relevant = {"C06": ("R1",), "C08": ("R1",), "C09": ("R4",)}  # C09: the read-only open (no store, read_only set, too-small file refused)  # C06's crash model and C08's "reopened file" clause rest on the zeroing the real closure performs

    def bounds(self):
        return ("all paths of map_mut_in / map_in with their closures, of unmount, of Options::open and of sync/unsync Arena::from(Memory) (no loops in them); reserved <= 2^32 - 256; callees outside the crate opaque "
                "(fresh symbolic result + effect record), Options::with_* setters = same Options value, sanity_check / write_sanity summarised "
                "(decided by Engine K under C09), size_of::<Header>() = 24, cleanup (unwinding) paths not followed; "
                "trusted: MAP_SHARED stores reach the file, the OS honours set_len/sync_all")


class TruncQ(EffectsQ):
    """effects mode over Memory::truncate (memmap build, all backend arms) and unsync::Arena::truncate: obligations T1-T5 of C18"""
    name, props = "effects_truncate_path", ["C18"]
    module, native_flag, min_obligations = "mirsmt.trunc", "--truncate-check", 5
    cross_check = True

    def bounds(self):
        return ("all paths of Memory::truncate (memmap-feature variant: Vec, file-backed, read-only file, anonymous-map arms) and of unsync::Arena::truncate "
                "(no loops in them); caller contract allocated <= size <= u32::MAX assumed for Memory::truncate and decided for the wrapper (T5); callees outside the crate "
                "opaque (fresh symbolic result + effect record), Options::with_* setters = same Options value with the argument recorded; cleanup (unwinding) paths not followed; "
                "trusted: the kernel maps the file's bytes at the new length, set_len grows with zeros")


class CreateQ(EffectsQ):
    """effects mode over the file-backed (new file) and anonymous-map constructors and Options::data_offset_in: obligations L0-L2 of C16"""
    name, props = "effects_create_path", ["C16"]
    module, native_flag, min_obligations = "mirsmt.create", "--create-check", 5
    cross_check = True

    def bounds(self):
        return ("all paths of Memory::map_mut_in with create_new = true, of Memory::map_anon and of Options::data_offset_in (no loops in them); reserved <= 2^32 - 256; "
                "callees outside the crate opaque (fresh symbolic result + effect record), write_sanity summarised (its byte layout is decided by Engine K under C09), "
                "size_of::<Header>() = 24; cleanup (unwinding) paths not followed")


def select(pid, tier, only=None):
    out = []
    if pid in CreateQ.props and (not only or only in CreateQ.name):
        out.append(CreateQ())
    if pid in TruncQ.props and (not only or only in TruncQ.name):
        out.append(TruncQ())
    if pid == "C09" and (not only or only in EffectsQ.name):
        out.append(EffectsQ())
    if pid in ReopenQ.props and (not only or only in ReopenQ.name):
        out.append(ReopenQ())
    for q in families():
        if pid not in q.props:
            continue
        if tier == "quick" and q.tier != "quick":
            continue
        if only and only not in q.name:
            continue
        out.append(q)
    return out


# ------------------------------------------------------------------------------------------------ MIR / replay builds
def dump_mir(repo_copy, logdir):
    crate = os.path.join(repo_copy, C.CRATE)
    env = C.base_env()
    env["CARGO_TARGET_DIR"] = os.path.join(os.path.dirname(repo_copy), "t.mir")
    t0 = time.time()
    p = subprocess.run(["cargo", "+nightly", "rustc", "--offline", "--lib"] + FEATURES_MIR + ["--", "-Zunpretty=mir", "-C", "debug-assertions=off", "-C", "overflow-checks=on"],
                       cwd=crate, env=env, stdout=subprocess.PIPE, stderr=subprocess.PIPE, text=True)
    with open(os.path.join(logdir, "mir.err"), "w") as f:
        f.write(p.stderr[-4000:])
    shutil.rmtree(env["CARGO_TARGET_DIR"], ignore_errors=True)
    if p.returncode != 0 or "fn " not in p.stdout:
        return None, time.time() - t0
    path = os.path.join(os.path.dirname(repo_copy), "mir.txt")
    with open(path, "w") as f:
        f.write(p.stdout)
    return path, time.time() - t0


def build_replay(repo_copy, logdir):
    d = os.path.join(os.path.dirname(repo_copy), "replay_m")
    b = os.path.join(d, "target", "debug", "replay_m")
    if os.path.exists(b):
        return b
    shutil.copytree(os.path.join(C.VERIF, "replay_m", "src"), os.path.join(d, "src"), dirs_exist_ok=True)
    with open(os.path.join(C.VERIF, "replay_m", "Cargo.toml.in")) as f:
        toml = f.read().replace("@REPO@", repo_copy)
    with open(os.path.join(d, "Cargo.toml"), "w") as f:
        f.write(toml)
    lock = os.path.join(repo_copy, "Cargo.lock")
    if os.path.exists(lock):
        shutil.copy(lock, os.path.join(d, "Cargo.lock"))
    env = C.base_env()
    env["RUSTFLAGS"] = "--cfg rarena_verif"
    p = subprocess.run(["cargo", "build", "--offline"], cwd=d, env=env, stdout=subprocess.PIPE, stderr=subprocess.STDOUT, text=True)
    with open(os.path.join(logdir, "replay_build.log"), "w") as f:
        f.write(p.stdout[-6000:])
    b = os.path.join(d, "target", "debug", "replay_m")
    return b if p.returncode == 0 and os.path.exists(b) else None


def replay_input(cex, path, file_path=None):
    """line-based description of a counterexample for replay_m (arguments resolved to concrete numbers)"""
    L = ["cap %d" % cex["cap"], "freelist %s" % cex["freelist"], "retries %d" % cex["retries"], "minseg %d" % cex["min_seg"]]
    if cex.get("init") == "inv":
        L.append("image %d %s" % (cex["header_offset"], " ".join("%x" % w for w in cex["words0"])))
    for ti, prog in enumerate(cex["progs"]):
        args = cex["args"][ti]
        acts = []
        for a in prog:
            if a[0] == "alloc_bytes":
                acts.append("%s:%d" % ("alloc_bytes_handover" if len(a) > 2 and a[2] == "handover" else "alloc_bytes", args[a[1] - 2]))
            elif a[0] == "alloc_typed":
                acts.append("alloc_typed:%s" % a[1])
            elif a[0] == "alloc_aligned":
                acts.append("alloc_aligned:%d:%s" % (args[a[1] - 2], a[2]))
            elif a[0] == "free_last":
                nalloc = sum(1 for b in prog[: prog.index(a)] if b[0] in ("alloc_bytes", "alloc_typed", "alloc_aligned"))
                acts.append("free_slot:%d" % (nalloc - 1))
            elif a[0] in ("free_slot", "forget_slot", "check_slot"):
                acts.append("%s:%d" % (a[0], a[1]))
            elif a[0] == "free_given":
                acts.append("free_given:%d:%d:%d" % (args[a[1] - 2], args[a[2] - 2], a[3]))
            elif a[0] == "touch_given":
                acts.append("touch_given:%d:%d" % (args[a[1] - 2], args[a[2] - 2]))
            elif a[0] in ("drop_arena", "clone_drop", "check_last"):
                acts.append(a[0])
            elif a[0] == "discard":
                acts.append("discard")
        L.append("prog %d %s" % (ti, " ".join(acts)))
    L.append("patterns " + " ".join(str(a[4]) for a in cex["args"]))
    sched = list(cex["schedule"])
    steps = cex["steps"][: len(sched)]
    # `unmount` is a step of the model but not an access the hook announces
    keep = [i for i, s_ in enumerate(steps) if not s_["desc"].startswith("unmount")]
    steps = [steps[i] for i in keep]
    sched = [sched[i] for i in keep]
    if cex["what"] == "crash":
        # only the set-up and the victim are forced; the survivor runs on the reopened file afterwards
        sv = len(cex["progs"]) - 1
        steps = [s for s in steps if s["thread"] != sv]
        sched = [t for t in sched if t != sv]
    L.append("schedule " + " ".join(str(t) for t in sched))
    tr = []
    for s in steps:
        tr.append("%d:%s" % (s["thread"], str(s["addr"]) if "addr" in s and s["addr"] < cex["cap"] else "-"))
    L.append("trace " + " ".join(tr))
    what = cex["what"]
    L.append("expect " + {"safe": "violation", "live": "hang", "crash": "hang_or_violation", "hb": "race", "teardown": "race"}[what])
    if "spin" in cex:
        L.append("spinner %d" % cex["spin"]["thread"])
    if what == "crash":
        L.append("crash")
        L.append("dead %d" % cex["dead"][0])
        L.append("file %s" % file_path)
    with open(path, "w") as f:
        f.write("\n".join(L) + "\n")


def run_replay(binary, inp_path, timeout=120):
    try:
        p = subprocess.run([binary, inp_path], stdout=subprocess.PIPE, stderr=subprocess.STDOUT, text=True, timeout=timeout)
        out, rc = p.stdout, p.returncode
    except subprocess.TimeoutExpired as e:
        out, rc = (e.stdout or b"").decode() if isinstance(e.stdout, bytes) else (e.stdout or ""), 124
    return rc, out


def known_match(known, pid, q, cex):
    for e in known.get("known", []):
        if e.get("property") != pid or e.get("engine") != "M":
            continue
        if not re.search(e.get("family", ".*"), q.name):
            continue
        if e.get("kind") and e["kind"] != cex["what"]:
            continue
        sp = cex.get("spin") or {}
        if e.get("spin_fn") and not re.search(e["spin_fn"], sp.get("fn", "")):
            continue
        if e.get("spin_word_size") is not None and ((sp.get("word", 1 << 63) >> 32) != e["spin_word_size"]):
            continue
        if e.get("abandoned_mark_fn") and not (cex.get("abandoned_mark") and re.search(e["abandoned_mark_fn"], cex["abandoned_mark"].get("fn", ""))):
            continue
        if e.get("victim_last") and not re.search(e["victim_last"], cex.get("victim_last", "")):
            continue
        if e.get("bad") and not any(re.search(e["bad"], b[1]) for b in cex.get("bad", [])):
            continue
        return e
    return None


# ------------------------------------------------------------------------------------------------ main entry
def run(pid, tier, queries, scratch, logdir, known):
    out = {"evaluations": 0, "nontrivial": 0, "solver_s": 0.0, "samples": [], "inconclusive": [], "violations": [], "known_lines": [],
           "functions": [], "assumptions": [
               "Engine M: nightly rustc's MIR of the crate (cfg off, overflow checks on) is what is encoded; the mirsmt translator is validated on every run by a self-test "
               "(its prediction of the final memory for a deterministic program vs. the real code run natively) and by replaying every counterexample",
               "executions are interleavings of the crate's atomic accesses, Meta::clear's zeroing and the client's fill/check (sequential consistency); "
               "weak-memory behaviours that no interleaving produces are outside the claim",
               "bounds per query are listed in its sample (arena of 96 bytes, concrete set-up history from a fresh arena, symbolic request sizes, "
               "<= 2/3 context switches between two threads, per-thread step bounds checked by the 'bound' query)",
               "stubs: Backoff::snooze/spin = no-op; compare_exchange_weak may fail spuriously at most once per thread; size_of/align_of of primitive types",
           ]}
    rc = os.path.join(scratch, "repo")
    if not os.path.isdir(rc):
        rc = C.copy_repo(scratch)
    if tier == "thorough":
        os.environ["MIRSMT_DIFF"] = "1"  # effects mode: every z3 verdict is re-decided by cvc5 on the same SMT-LIB text
    effq = [q for q in queries if q.kind == "effects"]
    queries = [q for q in queries if q.kind != "effects"]
    for q in effq:
        run_effects(q, pid, rc, scratch, logdir, known, out)
    if not queries:
        return out
    mir, t_mir = dump_mir(rc, logdir)
    if mir is None:
        out["inconclusive"].append("MIR dump of the current tree failed (see mir.err)")
        return out
    C.log("[M] MIR dumped in %.0fs" % t_mir)
    src = os.path.join(rc, C.CRATE, "src")
    jobs = []
    for q in queries:
        sp = os.path.join(logdir, "spec_%s.json" % q.name)
        op = os.path.join(logdir, "out_%s.json" % q.name)
        with open(sp, "w") as f:
            json.dump(q.spec(mir, src), f)
        jobs.append((q, sp, op))

    def mem_avail_gb():
        try:
            for ln in open("/proc/meminfo"):
                if ln.startswith("MemAvailable:"):
                    return int(ln.split()[1]) / 1048576.0
        except Exception:
            pass
        return 1e9

    def work(job, gate=True):
        q, sp, op = job
        # memory gate: a worker can grow to its 16 GB limit; do not start one while less than that is available
        # (the kernel OOM killer otherwise picks a victim, which is reported as inconclusive, never as a pass)
        waited = 0
        while gate and mem_avail_gb() < 18 and waited < 3600:
            time.sleep(15)
            waited += 15
        try:
            os.remove(op)
        except OSError:
            pass
        shell = "ulimit -v %d; exec timeout -k 10 %d %s -m mirsmt.worker %s %s" % (16 * 1024 * 1024, 4 * q.timeout + 300, PY, sp, op)
        t0 = time.time()
        p = subprocess.run(["bash", "-c", shell], cwd=C.VERIF, env=C.base_env(), stdout=subprocess.PIPE, stderr=subprocess.STDOUT, text=True)
        try:
            r = json.load(open(op))
        except Exception:
            r = {"error": "worker died (rc=%s): %s" % (p.returncode, p.stdout[-300:])}
        r["wall"] = time.time() - t0
        return r

    results = {}
    nj = max(1, min(int(os.environ.get("VERIF_JOBS", "10")), len(jobs)))
    with cf.ThreadPoolExecutor(max_workers=nj) as ex:
        futs = {ex.submit(work, j): j for j in jobs}
        for f in cf.as_completed(futs):
            q = futs[f][0]
            results[q.name] = f.result()
            r = results[q.name]
            C.log("[M] %-44s %-10s %6.0fs %s" % (q.name, r.get("verdict", r.get("error", "?"))[:10], r["wall"],
                                               " ".join("%s=%s" % (k, r.get(k)) for k in ("bound_ok", "reach_finish", "reach_interference") if k in r)))
    # a worker killed from outside (kernel OOM killer under memory pressure from its siblings) is retried once, alone
    for j in jobs:
        r = results[j[0].name]
        if "error" in r and "worker died (rc=-9)" in r["error"]:
            C.log("[M] %s: killed (memory pressure); retrying alone" % j[0].name)
            r2 = work(j, gate=False)
            r2["wall"] += r["wall"]
            results[j[0].name] = r2
            C.log("[M] %-44s %-10s %6.0fs (retry)" % (j[0].name, r2.get("verdict", r2.get("error", "?"))[:10], r2["wall"]))
    binary = None
    funcs = set()
    rerun = []
    for q in queries:
        r = results[q.name]
        out["evaluations"] += max(1, len(r.get("queries", [])))
        out["solver_s"] += r.get("solver_s", 0.0)
        funcs |= set(r.get("functions", []))
        sample = {"engine": "M", "query": q.name, "kind": q.kind, "bounds": q.bounds(), "chunks": r.get("chunks"), "unrolled_steps": r.get("steps"),
                  "visible_points_per_thread": r.get("points"), "registers_per_thread": r.get("regs"), "verdict": r.get("verdict"),
                  "queries": r.get("queries"), "solver_s": r.get("solver_s"), "wall_s": round(r["wall"], 1)}
        if "error" in r:
            sample["verdict"] = "inconclusive"
            sample["reason"] = r["error"]
            out["inconclusive"].append("%s: %s" % (q.name, r["error"][:200]))
            out["samples"].append(sample)
            continue
        need_replay = None
        if q.selftest:
            st = r.get("selftest")
            if not st:
                out["inconclusive"].append("%s: self-test program does not complete in the model (%s)" % (q.name, r.get("verdict")))
                sample["verdict"] = "inconclusive"
            else:
                need_replay = ("selftest", st["cex"], st)
        elif r.get("verdict") == "sat":
            need_replay = ("cex", r["cex"], None)
        elif r.get("verdict") != "unsat":
            sample["verdict"] = "inconclusive"
            out["inconclusive"].append("%s: solver answered %s within %ds" % (q.name, r.get("verdict"), q.timeout))
        else:
            # held: the twins decide whether the verdict is vacuous / the bounds were sufficient
            vac = [k for k in ("reach_finish", "reach_interference") if k in r and r[k] != "sat"]
            if r.get("bound_ok") not in ("unsat",):
                sample["verdict"] = "inconclusive"
                out["inconclusive"].append("%s: step bound not shown sufficient (%s) %s" % (q.name, r.get("bound_ok"), r.get("bound_witness", "")))
            elif vac:
                sample["verdict"] = "inconclusive"
                out["inconclusive"].append("%s: vacuity witness not satisfiable: %s" % (q.name, vac))
            else:
                sample["verdict"] = "pass"
                out["nontrivial"] += 1
        if need_replay:
            if binary is None:
                binary = build_replay(rc, logdir) or False
            mode, cex, st = need_replay
            if not binary:
                out["inconclusive"].append("%s: replay harness does not build against this tree" % q.name)
                sample["verdict"] = "inconclusive"
            else:
                inp = os.path.join(logdir, "replay_%s.txt" % q.name)
                replay_input(cex, inp, file_path=os.path.join(scratch, "crash_%s.arena" % q.name))
                rcode, rout = run_replay(binary, inp)
                sample["replay"] = {"exit": rcode, "output": [l for l in rout.split("\n") if l.startswith(("RESULT", "NATIVE", "TRACE"))][:6]}
                if mode == "selftest":
                    fin = [l for l in rout.split("\n") if l.startswith("FINAL ")]
                    native = [int(x, 16) for x in fin[0].split()[1:]] if fin else None
                    model = st["final_words"]
                    hw = cex["header_offset"] // 8
                    ok = native is not None and rcode == 0
                    if ok:
                        for i in range(hw, len(model)):
                            a, b = native[i], model[i]
                            if i == hw + 2:
                                a, b = a & 0xFFFFFFFF, b & 0xFFFFFFFF  # header padding
                            if a != b:
                                ok = False
                                sample["selftest_mismatch"] = {"word": i, "native": hex(native[i]), "model": hex(model[i])}
                                break
                    sample["verdict"] = "pass" if ok else "inconclusive"
                    if ok:
                        out["nontrivial"] += 1
                    else:
                        out["inconclusive"].append("%s: translator self-test failed: the encoding's final memory differs from the real code's (or the replay diverged: exit %s)" % (q.name, rcode))
                else:
                    what = {"safe": "violation", "live": "hang", "crash": "crash", "hb": "race", "teardown": "race"}[cex["what"]]
                    desc = ""
                    if cex.get("spin"):
                        sp_ = cex["spin"]
                        desc = "thread %d spins in %s on the word at offset %d = %#x (size field %d) while every other thread has finished" % (
                            sp_["thread"], sp_["fn"].split("::")[-1], sp_["addr"], sp_["word"], sp_["word"] >> 32)
                    elif cex.get("bad"):
                        desc = "%s at step %d" % (cex["bad"][0][1], cex["bad"][0][0])
                    elif what == "race":
                        desc = "accesses to byte %d not ordered by happens-before" % cex.get("witness_byte", -1)
                    sample["counterexample"] = {"schedule": cex["schedule"], "args": cex["args"], "what": desc}
                    died = rcode < 0 or rcode in (132, 134, 135, 136, 139)
                    if died:
                        desc += " [native run: the process died with %s]" % ("signal %d" % -rcode if rcode < 0 else "exit status %d" % rcode)
                        sample["replay"]["died"] = True
                    if rcode == 1 or died:
                        e = known_match(known, pid, q, cex)
                        if e:
                            line = "KNOWN-FINDING: property=%s %s" % (pid, e["what"])
                            if line not in out["known_lines"]:
                                out["known_lines"].append(line)
                            sample["verdict"] = "known-finding"
                            out["nontrivial"] += 1
                            role = e.get("exclude_role")
                            if role and not getattr(q, "exclude", None):
                                # the listed finding must not hide a different violation of the same family: decide the family again without it
                                import copy
                                q2 = copy.copy(q)
                                q2.exclude = [role]
                                q2.name = q.name + "__without_" + role
                                rerun.append(q2)
                        else:
                            os.makedirs(C.REPLAY_DIR, exist_ok=True)
                            rp = os.path.join(C.REPLAY_DIR, "%s-M-%s.json" % (pid, q.name))
                            with open(rp, "w") as f:
                                json.dump({"engine": "M", "property": pid, "query": q.name, "what": desc, "cex": cex, "replay_input": open(inp).read(),
                                           "native": sample["replay"]}, f, indent=1)
                            out["violations"].append((q.name, rp, desc))
                            sample["verdict"] = "fail"
                    else:
                        sample["verdict"] = "non-reproducing"
                        out["inconclusive"].append("%s: the solver's counterexample did not reproduce natively (exit %s): %s" % (q.name, rcode, desc))
        out["samples"].append(sample)
    out["functions"] = sorted(set(out.get("functions", [])) | funcs)
    if rerun and not os.environ.get("VERIF_NO_RERUN"):
        os.environ["VERIF_NO_RERUN"] = "1"
        try:
            sub = run(pid, tier, rerun, scratch, logdir, known)
        finally:
            os.environ.pop("VERIF_NO_RERUN", None)
        for k_ in ("evaluations", "nontrivial", "solver_s"):
            out[k_] += sub[k_]
        out["samples"] += sub["samples"]
        out["inconclusive"] += sub["inconclusive"]
        out["violations"] += sub["violations"]
        for l_ in sub["known_lines"]:
            if l_ not in out["known_lines"]:
                out["known_lines"].append(l_)
    return out


def run_effects(q, pid, rc, scratch, logdir, known, out):
    crate = os.path.join(rc, C.CRATE)
    env = C.base_env()
    env["CARGO_TARGET_DIR"] = os.path.join(scratch, "t.mirmm")
    t0 = time.time()
    p = subprocess.run(["cargo", "+nightly", "rustc", "--offline", "--lib", "--features", "memmap", "--", "-Zunpretty=mir", "-C", "debug-assertions=off",
                        "-C", "overflow-checks=on"], cwd=crate, env=env, stdout=subprocess.PIPE, stderr=subprocess.PIPE, text=True)
    shutil.rmtree(env["CARGO_TARGET_DIR"], ignore_errors=True)
    eff_assume = ("effects mode: the memmap-feature MIR of the named functions is executed symbolically on all paths; every callee outside the crate is an opaque call "
                  "(arbitrary result of its type, recorded with its arguments), so the kernel / memmap2 / std::fs behaviour is trusted as documented; obligations are "
                  "decided per path by z3 (cvc5 re-decides them in the thorough tier); a failed obligation is reported only after a native experiment on real files shows the "
                  "loss (else exit 2), and the same experiment cross-checks a pass")
    if eff_assume not in out["assumptions"]:
        out["assumptions"].append(eff_assume)
    sample = {"engine": "M", "query": q.name, "kind": "effects", "bounds": q.bounds()}
    out["evaluations"] += 1
    if p.returncode != 0 or "fn " not in p.stdout:
        out["inconclusive"].append("%s: MIR dump (memmap feature) of the current tree failed" % q.name)
        sample["verdict"] = "inconclusive"
        out["samples"].append(sample)
        return
    mirp = os.path.join(scratch, "mir_mm.txt")
    with open(mirp, "w") as f:
        f.write(p.stdout)
    op = os.path.join(logdir, "out_%s.json" % q.name)
    shell = "ulimit -v %d; exec timeout -k 10 %d %s -m %s %s %s %s" % (8 * 1024 * 1024, q.timeout, PY, q.module, mirp, os.path.join(crate, "src"), op)
    subprocess.run(["bash", "-c", shell], cwd=C.VERIF, env=C.base_env(), stdout=subprocess.PIPE, stderr=subprocess.STDOUT, text=True)
    try:
        r = json.load(open(op))
    except Exception:
        r = {"error": "effects worker died", "obligations": []}
    sample["wall_s"] = round(time.time() - t0, 1)
    sample["obligations"] = [{k: o.get(k) for k in ("id", "text", "holds", "paths", "ok_paths", "panic_paths_not_followed", "function", "witnesses")} for o in r.get("obligations", [])]
    out["functions"] = sorted(set(out.get("functions", [])) | set(o.get("function", "") for o in r.get("obligations", [])))
    sample["solver_s"] = r.get("wall_s")
    if r.get("second_solver"):
        sample["second_solver"] = r["second_solver"]
    out["solver_s"] = out.get("solver_s", 0.0) + (r.get("wall_s") or 0.0)
    if r.get("error") or len(r.get("obligations", [])) < q.min_obligations:
        sample["verdict"] = "inconclusive"
        out["inconclusive"].append("%s: %s" % (q.name, r.get("error") or "obligations missing"))
        out["samples"].append(sample)
        return
    out["evaluations"] += sum(o.get("paths", 0) for o in r["obligations"])
    rel = getattr(q, "relevant", {}).get(pid)
    failed = [o for o in r["obligations"] if not o["holds"] and (rel is None or o["id"] in rel)]
    other_failed = [o["id"] for o in r["obligations"] if not o["holds"] and o not in failed]
    if other_failed:
        sample["obligations_failed_but_not_relevant_to_this_property"] = other_failed
    vac = [o["id"] for o in r["obligations"] if o.get("ok_paths", 0) == 0 or o.get("vacuous")]
    if not failed:
        if vac:
            sample["verdict"] = "inconclusive"
            out["inconclusive"].append("%s: no accepting path explored for %s (vacuous)" % (q.name, vac))
        else:
            sample["verdict"] = "pass"
            out["nontrivial"] += 1
            if getattr(q, "cross_check", False) and not other_failed:
                # cross-check of the encoding: the native close/reopen experiment must agree with "all obligations hold";
                # a difference it shows that no obligation explains means the encoding misses something -> not a pass
                binary = build_replay(rc, logdir)
                if binary:
                    d = os.path.join(scratch, "opencheck")
                    os.makedirs(d, exist_ok=True)
                    pr = subprocess.run([binary, q.native_flag, d], stdout=subprocess.PIPE, stderr=subprocess.STDOUT, text=True)
                    native = [l for l in pr.stdout.split("\n") if l.startswith("NATIVE")]
                    sample["replay"] = {"exit": pr.returncode, "output": native[:12], "role": "cross-check of the encoding on this tree (native experiments through the public API, real files)"}
                    if pr.returncode != 0:
                        sample["verdict"] = "inconclusive"
                        out["nontrivial"] -= 1
                        out["inconclusive"].append("%s: every obligation holds on the explored paths but the native experiment shows a difference (%s): the encoding does not explain it" % (q.name, "; ".join(native[:2])[:300]))
                else:
                    sample["replay_note"] = "native cross-check skipped: replay harness does not build against this tree"
        out["samples"].append(sample)
        return
    # native confirmation: concrete files for each obligation against the real crate
    binary = build_replay(rc, logdir)
    if not binary:
        sample["verdict"] = "inconclusive"
        out["inconclusive"].append("%s: replay harness does not build against this tree" % q.name)
        out["samples"].append(sample)
        return
    d = os.path.join(scratch, "opencheck")
    os.makedirs(d, exist_ok=True)
    pr = subprocess.run([binary, q.native_flag, d], stdout=subprocess.PIPE, stderr=subprocess.STDOUT, text=True)
    native = [l for l in pr.stdout.split("\n") if l.startswith("NATIVE")]
    sample["replay"] = {"exit": pr.returncode, "output": native[:12]}
    confirmed = [o for o in failed if any(("%s violated" % o["id"]) in l for l in native)]
    if not confirmed and getattr(q, "cross_check", False) and any(" violated" in l for l in native):
        # the native experiment attributes a difference to the obligation whose *symptom* it sees (e.g. a file cut on drop
        # shows up as a failed reopen); any natively observed loss of state confirms the failed reopen obligations
        confirmed = failed
    if not confirmed:
        sample["verdict"] = "non-reproducing"
        out["inconclusive"].append("%s: obligation %s fails on the explored paths but the native experiment does not show it" % (q.name, [o["id"] for o in failed]))
        out["samples"].append(sample)
        return
    desc = "; ".join("%s: %s" % (o["id"], o["text"]) for o in confirmed)
    os.makedirs(C.REPLAY_DIR, exist_ok=True)
    rp = os.path.join(C.REPLAY_DIR, "%s-M-%s.json" % (pid, q.name))
    with open(rp, "w") as f:
        json.dump({"engine": "M", "property": pid, "query": q.name, "mode": q.native_flag.strip("-"), "what": desc, "obligations": confirmed, "native": native[:20]}, f, indent=1)
    out["violations"].append((q.name, rp, desc))
    sample["verdict"] = "fail"
    out["samples"].append(sample)


def replay_from_file(path):
    rec = json.load(open(path))
    scratch = C.make_scratch("replayM")
    logdir = os.path.join(scratch, "logs")
    os.makedirs(logdir, exist_ok=True)
    rc = C.copy_repo(scratch)
    if rec.get("cex", {}).get("what") in ("hb", "teardown"):
        # a data race is not observable by a plain run: the saved schedule is re-judged by re-deciding its query family on the current tree
        qs = [q for q in families() if q.name == rec["query"]]
        out = run(rec["property"], "thorough", qs, scratch, logdir, C.load_known())
        bad = bool(out["violations"])
        print("replay (re-decided %s on the current tree): %s" % (rec["query"], "still fails" if bad else "passes"))
        return bad
    binary = build_replay(rc, logdir)
    if not binary:
        print("replay harness does not build against this tree")
        return False
    if rec.get("mode") in ("open-check", "reopen-check", "truncate-check", "create-check"):
        d = os.path.join(scratch, "opencheck")
        os.makedirs(d, exist_ok=True)
        pr = subprocess.run([binary, "--" + rec["mode"], d], stdout=subprocess.PIPE, stderr=subprocess.STDOUT, text=True)
        print(pr.stdout)
        print("replay: %s" % ("still fails" if pr.returncode == 1 else "passes"))
        return pr.returncode == 1
    inp = os.path.join(scratch, "in.txt")
    replay_input(rec["cex"], inp, file_path=os.path.join(scratch, "crash.arena"))
    rcode, out = run_replay(binary, inp)
    print("\n".join(l for l in out.split("\n") if l.startswith(("RESULT", "NATIVE", "TRACE"))))
    print("replay: %s" % ("still fails" if rcode == 1 else "passes" if rcode == 0 else "diverged"))
    return rcode == 1
