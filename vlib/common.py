"""Shared plumbing for the rarena verification checks (scratch trees, evidence, known findings)."""
import json, os, shutil, subprocess, sys, tempfile, time, atexit, signal, hashlib

VERIF = os.path.dirname(os.path.dirname(os.path.abspath(__file__)))
REPO = os.environ.get("VERIF_REPO", "/repo")
CRATE = "rarena-allocator"
EVIDENCE_DIR = os.environ.get("VERIF_EVIDENCE_DIR") or os.path.join(VERIF, "evidence")
REPLAY_DIR = os.environ.get("VERIF_REPLAY_DIR") or os.path.join(VERIF, "replays")
KNOWN_FILE = os.path.join(VERIF, "known_findings.json")

EXIT_OK, EXIT_VIOLATION, EXIT_INCONCLUSIVE = 0, 1, 2

_scratch = []


def _cleanup():
    for d in _scratch:
        shutil.rmtree(d, ignore_errors=True)


def _on_signal(signum, frame):
    _cleanup()
    os._exit(EXIT_INCONCLUSIVE)


atexit.register(_cleanup)
for _s in (signal.SIGTERM, signal.SIGINT, signal.SIGHUP):
    try:
        signal.signal(_s, _on_signal)
    except Exception:
        pass


def scratch_root():
    return os.environ.get("VERIF_SCRATCH") or os.environ.get("TMPDIR") or "/var/tmp"


def make_scratch(tag):
    d = tempfile.mkdtemp(prefix="rarena-verif.%s." % tag, dir=scratch_root())
    if not os.environ.get("VERIF_KEEP"):
        _scratch.append(d)
    return d


def copy_repo(dst):
    """rsync the current /repo working tree (no target/, no .git) into dst/repo."""
    tgt = os.path.join(dst, "repo")
    os.makedirs(tgt, exist_ok=True)
    subprocess.run(
        ["rsync", "-a", "--delete", "--exclude", "/target", "--exclude", ".git", REPO + "/", tgt + "/"],
        check=True,
    )
    return tgt


def repo_fingerprint():
    """sha256 over the crate sources checked (reported in evidence, not used as a cache key)."""
    h = hashlib.sha256()
    src = os.path.join(REPO, CRATE, "src")
    for root, _, files in sorted(os.walk(src)):
        for f in sorted(files):
            p = os.path.join(root, f)
            h.update(p.encode())
            with open(p, "rb") as fh:
                h.update(fh.read())
    return h.hexdigest()[:16]


def base_env():
    env = dict(os.environ)
    env["CARGO_NET_OFFLINE"] = "true"
    env.pop("RUSTFLAGS", None)
    env.pop("CARGO_TARGET_DIR", None)
    return env


def load_known():
    try:
        with open(KNOWN_FILE) as f:
            return json.load(f)
    except FileNotFoundError:
        return {"known": [], "fixed": []}


def seed():
    try:
        return int(os.environ.get("VERIF_SEED", "0"))
    except ValueError:
        return 0


def write_evidence(pid, tier, level, coverage, assumptions, wall_s, violations, extra=None, partial=False):
    os.makedirs(EVIDENCE_DIR, exist_ok=True)
    ev = {
        "property_id": pid,
        "tier": tier,
        "seed": seed(),
        "level": level,
        "coverage": coverage,
        "assumptions": assumptions,
        "wall_s": round(wall_s, 2),
        "violations": violations,
    }
    if extra:
        ev.update(extra)
    # a filtered run (--only) is a developer run: it must not replace the evidence of the registered command
    name = pid + (".partial.json" if partial else ".json")
    tmp = os.path.join(EVIDENCE_DIR, name + ".tmp")
    with open(tmp, "w") as f:
        json.dump(ev, f, indent=1, sort_keys=False)
        f.write("\n")
    os.replace(tmp, os.path.join(EVIDENCE_DIR, name))
    return ev


def log(*a):
    print(*a, file=sys.stderr, flush=True)
