"""Engine K: Kani/CBMC over the real crate with overlaid harness modules.

Every run: rsync /repo -> scratch, copy harness files next to the sources, append one
`#[cfg(kani)] #[path=..] mod ..;` line per host module, build once, then decide each
selected harness with its own `cargo kani --harness X --exact` process (shared target dir,
no recompilation), parse the per-check verdicts, replay counterexamples natively.
"""
import os, re, shutil, subprocess, time, json, concurrent.futures as cf
from . import common as C

HARNESS_DIR = os.path.join(C.VERIF, "engine_k", "harness")

# harness file -> (host source file relative to crate/src, module name, module path prefixes)
HOSTS = {
    "h_lib.rs": [("lib.rs", "vk_lib", "vk_lib")],
    "h_more.rs": [("lib.rs", "vk_more", "vk_more")],
    "h_mem.rs": [("memory.rs", "vk_mem", "memory::vk_mem")],
    "h_bytes.rs": [("bytes.rs", "vk_bytes", "bytes::vk_bytes")],
    "h_unsync.rs": [("unsync.rs", "vk_unsync", "unsync::vk_unsync")],
    "h_sync.rs": [("sync.rs", "vk_sync", "sync::vk_sync")],
    "h_mm.rs": [("lib.rs", "vk_mm", "vk_mm")],
    "h_arena.rs": [("sync.rs", "vk_arena", "sync::vk_arena"), ("unsync.rs", "vk_arena", "unsync::vk_arena")],
}

FEATURES = ["--no-default-features", "--features", "alloc"]
FEATURES_BY = {"alloc": FEATURES, "memmap": ["--features", "memmap"]}
HOST_CFG = {"h_mm.rs": 'all(kani, feature = "memmap")'}

ANNOT = re.compile(r"^\s*//\s*@h\s+(.*)$")
FN = re.compile(r"^\s*(?:pub(?:\([a-z]+\))?\s+)?fn\s+([A-Za-z0-9_]+)\s*\(")
MACRO = re.compile(r"^\s*[a-z0-9_]+!\(\s*([A-Za-z0-9_]+)\s*,")
UNWIND = re.compile(r"#\[kani::unwind\((\d+)\)\]")


class Harness:
    def __init__(self, file, name, modpath, attrs, unwind):
        self.file, self.fn, self.modpath = file, name, modpath
        self.name = modpath + "::" + name
        self.props = attrs.get("props", "").split(",") if attrs.get("props") else []
        self.tier = attrs.get("tier", "quick")
        self.quick_for = set(attrs.get("quick", "").split(",")) if attrs.get("quick") else None
        self.timeout = int(attrs.get("timeout", "1500"))
        self.mem_gb = int(attrs.get("mem", "12"))
        self.builtin = attrs.get("builtin", None)
        self.builtin = self.builtin.split(",") if self.builtin else list(self.props)
        self.flavors = attrs.get("flavors", None)
        self.bounds = attrs.get("bounds", "")
        self.optional_covers = [o.replace("_", " ") for o in attrs.get("optcover", "").split("|")] if attrs.get("optcover") else []
        self.seedgrp = attrs.get("seedgrp", None)
        self.unwind = unwind
        self.role = attrs.get("role", name)
        self.feat = attrs.get("feat", "alloc")

    def in_tier(self, pid, tier):
        if pid not in self.props:
            return False
        if tier == "thorough":
            return True
        if self.quick_for is not None:
            return pid in self.quick_for
        return self.tier == "quick"


def discover():
    hs = []
    for fname, hosts in HOSTS.items():
        path = os.path.join(HARNESS_DIR, fname)
        if not os.path.exists(path):
            continue
        lines = open(path).read().split("\n")
        pending, unwind, proof = None, None, False
        for ln in lines:
            m = ANNOT.match(ln)
            if m:
                pending = dict(kv.split("=", 1) for kv in m.group(1).split() if "=" in kv)
                unwind, proof = None, False
                continue
            if "#[kani::proof]" in ln:
                proof = True
            mu = UNWIND.search(ln)
            if mu:
                unwind = int(mu.group(1))
            mf = FN.match(ln)
            mm = MACRO.match(ln)
            if mm and pending is not None:
                mf, proof = mm, True
                if unwind is None and "unwind" in pending:
                    unwind = int(pending["unwind"])
            if mf and proof:
                attrs = pending or {}
                for (_, _, modpath) in hosts:
                    flav = modpath.split("::")[0]
                    if attrs.get("flavors") and flav not in attrs["flavors"].split(","):
                        continue
                    hs.append(Harness(fname, mf.group(1), modpath, attrs, unwind))
                pending, unwind, proof = None, None, False
    return hs


def overlay(repo_copy):
    src = os.path.join(repo_copy, C.CRATE, "src")
    vk = os.path.join(src, "vk")
    os.makedirs(vk, exist_ok=True)
    for f in os.listdir(HARNESS_DIR):
        if f.endswith(".rs"):
            shutil.copy(os.path.join(HARNESS_DIR, f), os.path.join(vk, f))
    for fname, hosts in HOSTS.items():
        if not os.path.exists(os.path.join(HARNESS_DIR, fname)):
            continue
        for (host, modname, _) in hosts:
            with open(os.path.join(src, host), "a") as fh:
                fh.write('\n#[cfg(%s)]\n#[path = "vk/%s"]\npub(crate) mod %s;\n' % (HOST_CFG.get(fname, "kani"), fname, modname))


def build(repo_copy, logdir, harnesses=None):
    """Compile the crate + the selected harnesses once (Kani only generates code for the harnesses
    named with --harness, which is what keeps this step short). Returns (ok, log, seconds)."""
    crate = os.path.join(repo_copy, C.CRATE)
    t0 = time.time()
    sel = []
    harnesses = [h for h in (harnesses or []) if h.feat == "alloc"]
    if not harnesses:
        return True, "", 0.0
    for h in harnesses:
        sel += ["--harness", h.name]
    if sel:
        sel.append("--exact")
    p = subprocess.run(
        ["cargo", "kani"] + FEATURES + ["--only-codegen"] + sel,
        cwd=crate, env=C.base_env(), stdout=subprocess.PIPE, stderr=subprocess.STDOUT, text=True,
    )
    with open(os.path.join(logdir, "build.log"), "w") as f:
        f.write(p.stdout)
    return p.returncode == 0, p.stdout, time.time() - t0


CHECK_RE = re.compile(
    r"Check (\d+): ([^\n]+)\n\s+- Status: (\S+)\n\s+- Description: \"(.*?)\"\n\s+- Location: ([^\n]*)\n", re.S
)


def parse(out):
    res = {"checks": [], "verdict": None, "time": None, "covers": []}
    for m in CHECK_RE.finditer(out):
        num, cname, status, desc, loc = m.groups()
        ent = {"name": cname, "status": status, "desc": desc, "loc": loc.strip()}
        if re.search(r"\.cover\.\d+$", cname):
            res["covers"].append(ent)
        else:
            res["checks"].append(ent)
    m = re.search(r"VERIFICATION:- (\w+)", out)
    if m:
        res["verdict"] = m.group(1)
    m = re.search(r"Verification Time: ([0-9.]+)s", out)
    if m:
        res["time"] = float(m.group(1))
    return res


def run_one(h, repo_copy, logdir, extra_args=None, mem_gb=None):
    mem_gb = mem_gb or h.mem_gb
    crate = os.path.join(repo_copy, C.CRATE)
    # own target dir per harness (hard-linked copy of the shared build: dependencies are reused, the crate is
    # re-generated for this harness only, ~2 s), so that harnesses can be decided in parallel
    main_target = os.path.join(repo_copy, "target")
    tdir = os.path.join(os.path.dirname(repo_copy), "t." + re.sub(r"[^A-Za-z0-9_]", "_", h.name))
    shutil.rmtree(tdir, ignore_errors=True)
    if os.path.isdir(main_target) and h.feat == "alloc":
        subprocess.run(["cp", "-al", main_target, tdir], check=False)
    cmd = ["cargo", "kani"] + FEATURES_BY[h.feat] + ["--harness", h.name, "--exact", "--target-dir", tdir] + (extra_args or [])
    shell = "ulimit -v %d; exec timeout -k 10 %d %s" % (mem_gb * 1024 * 1024, h.timeout, " ".join(cmd))
    t0 = time.time()
    p = subprocess.run(["bash", "-c", shell], cwd=crate, env=C.base_env(),
                       stdout=subprocess.PIPE, stderr=subprocess.STDOUT, text=True)
    wall = time.time() - t0
    shutil.rmtree(tdir, ignore_errors=True)
    logf = os.path.join(logdir, h.name.replace("::", "__") + ".log")
    with open(logf, "w") as f:
        f.write(p.stdout)
    r = parse(p.stdout)
    r["wall"] = wall
    r["rc"] = p.returncode
    r["timeout"] = p.returncode in (124, 137)
    r["log"] = logf
    r["raw_tail"] = p.stdout[-1500:]
    return r


# C04's statement: a successful call "returns a handle satisfying C01/C03": their post-conditions on the returned handle are part of it
INCLUDES = {"C04": ("C01", "C03")}

MEMSAFE = ("dereference failure", "pointer", "memcpy", "memset", "index out of bounds", "offset", "out of bounds",
           "misaligned", "invalid", "free", "deallocat", "NULL")


def classify(h, r, pid):
    """Return dict(status=pass|fail|inconclusive, failures=[..], reason=..) for property pid."""
    if r["timeout"]:
        return {"status": "inconclusive", "reason": "timeout after %ds" % h.timeout, "failures": []}
    if r["verdict"] is None:
        return {"status": "inconclusive", "reason": "no verdict (rc=%s): %s" % (r["rc"], r["raw_tail"][-400:]), "failures": []}
    unw = [c for c in r["checks"] if "unwinding assertion" in c["desc"] and c["status"] == "FAILURE"]
    if unw:
        return {"status": "inconclusive", "reason": "unwinding bound too small: " + unw[0]["loc"], "failures": []}
    unsup = [c for c in r["checks"] if c["status"] == "FAILURE" and ("not currently supported" in c["desc"] or "unsupported" in c["desc"].lower())]
    if unsup:
        return {"status": "inconclusive", "reason": "unsupported construct reached: " + unsup[0]["desc"][:200], "failures": []}
    fails = [c for c in r["checks"] if c["status"] == "FAILURE"]
    enc = [c for c in fails if "ENC: " in c["desc"]]
    if enc:
        return {"status": "inconclusive", "reason": "harness state encoding no longer matches the code: " + enc[0]["desc"], "failures": []}
    mine = []
    for c in fails:
        m = re.search(r"\b(C\d\d): ", c["desc"])
        if m:
            if m.group(1) == pid or m.group(1) in INCLUDES.get(pid, ()):
                mine.append(c)
        else:
            if pid in h.builtin:
                mine.append(c)
    if mine:
        return {"status": "fail", "failures": mine, "reason": ""}
    if r["verdict"] not in ("SUCCESSFUL", "FAILED"):
        return {"status": "inconclusive", "reason": "verdict " + str(r["verdict"]), "failures": []}
    # every check must have a definite status
    undet = [c for c in r["checks"] if c["status"] not in ("SUCCESS", "FAILURE", "UNREACHABLE")]
    if undet:
        return {"status": "inconclusive", "reason": "undetermined checks: " + undet[0]["desc"][:100], "failures": []}
    bad_cov = [c for c in r["covers"] if c["status"] != "SATISFIED"
               and not any(o and o in c["desc"].replace("_", " ") for o in h.optional_covers)]
    if bad_cov:
        return {"status": "inconclusive", "reason": "vacuity witness not satisfied: " + bad_cov[0]["desc"][:120], "failures": []}
    return {"status": "pass", "failures": [], "reason": ""}


def playback(h, repo_copy, logdir):
    """Ask Kani for concrete tests of the failing harness (print mode: also works for
    macro-generated harnesses), append them to the overlay file, run them natively in the dev
    profile (what Kani models) and in release (what users run).
    Returns dict(test_src, dev_fails, release_fails, ...)."""
    crate = os.path.join(repo_copy, C.CRATE)
    cmd = ["cargo", "kani"] + FEATURES_BY[h.feat] + ["--harness", h.name, "--exact", "-Z", "concrete-playback",
                                          "--concrete-playback=print"]
    p = subprocess.run(["timeout", "-k", "10", str(h.timeout)] + cmd, cwd=crate, env=C.base_env(),
                       stdout=subprocess.PIPE, stderr=subprocess.STDOUT, text=True)
    out = {"test_src": None, "dev_fails": None, "release_fails": None}
    blocks = re.findall(r"Concrete playback unit test for `[^`]+`:\n```\n(.*?)\n```", p.stdout, re.S)
    tests = []
    for b in blocks:
        m = re.search(r"fn (kani_concrete_playback_[A-Za-z0-9_]+)\(", b)
        if m and h.fn in m.group(1):
            tests.append((m.group(1), b))
    if not tests:
        out["out"] = p.stdout[-600:]
        return out
    src_file = os.path.join(crate, "src", "vk", h.file)
    with open(src_file, "a") as f:
        for _, b in tests:
            f.write("\n" + b + "\n")
    failing = {}
    for prof, key in ((None, "dev_fails"), ("--release", "release_fails")):
        cmd = ["cargo", "kani", "playback", "-Z", "concrete-playback"] + FEATURES_BY[h.feat]
        if prof:
            cmd.append(prof)
        cmd += ["--", "kani_concrete_playback_" + h.fn + "_"]
        q = subprocess.run(["timeout", "-k", "10", "1200"] + cmd, cwd=crate, env=C.base_env(),
                           stdout=subprocess.PIPE, stderr=subprocess.STDOUT, text=True)
        with open(os.path.join(logdir, "playback_%s_%s.log" % (h.fn, key)), "w") as f:
            f.write(q.stdout)
        if "test result:" not in q.stdout:
            out[key] = None
            out[key + "_msg"] = q.stdout[-400:]
            continue
        bad = re.findall(r"test \S*?(kani_concrete_playback_[A-Za-z0-9_]+) \.\.\. FAILED", q.stdout)
        out[key] = bool(bad)
        for t in bad:
            failing[t] = True
        out[key + "_msg"] = "\n".join(l for l in q.stdout.split("\n") if "panicked at" in l or l.startswith("C") or "overflow" in l)[:800]
    keep = [b for (n, b) in tests if n in failing] or [b for (_, b) in tests]
    out["test_src"] = "\n\n".join(keep)
    return out


def replay_from_file(path):
    """Re-run a saved replay (concrete playback tests) against the current tree. True iff one still fails."""
    rec = json.load(open(path))
    scratch = C.make_scratch("replay")
    rc = C.copy_repo(scratch)
    overlay(rc)
    crate = os.path.join(rc, C.CRATE)
    srcf = os.path.join(crate, "src", "vk", rec["file"])
    with open(srcf, "a") as f:
        f.write("\n" + rec["test_src"] + "\n")
    fn = rec["harness"].split("::")[-1]
    fails = False
    for prof in ([], ["--release"]):
        cmd = ["cargo", "kani", "playback", "-Z", "concrete-playback"] + FEATURES + prof + ["--", "kani_concrete_playback_" + fn + "_"]
        q = subprocess.run(cmd, cwd=crate, env=C.base_env(), stdout=subprocess.PIPE, stderr=subprocess.STDOUT, text=True)
        print("\n".join(l for l in q.stdout.split("\n") if l.startswith("test ") or "panicked" in l or "C" == l[:1])[-1500:])
        if re.search(r"\.\.\. FAILED", q.stdout):
            fails = True
    return fails
