"""Per-property orchestration: select the queries of both engines, run them, triage, write evidence."""
import os, re, sys, json, time, concurrent.futures as cf
from . import common as C
from . import kani as K

PROPS = {}
for _l in open(os.path.join(C.VERIF, "properties.jsonl")):
    _p = json.loads(_l)
    PROPS[_p["id"]] = _p

# Which engines serve which property (engine M entries are added by mirsmt_driver.QUERIES)
ASSUMPTIONS_K = [
    "Kani 0.68 / CBMC 6.11 (cadical) semantics of the MIR of the crate built with --no-default-features --features alloc (dev profile: overflow checks on)",
    "Vec backing only: mmap/file constructors are FFI and are not executed by Engine K",
    "bounds stated per harness (arena capacity, free-list length, unwind); unwinding assertions on",
    "the symbolic pre-state is any state satisfying INV (engine_k/harness/h_arena.rs: assume_inv); INV is shown inductive by the same harnesses",
]


def known_match(known, pid, name, desc, loc, engine="K"):
    for e in known.get("known", []):
        if e.get("property") != pid or e.get("engine", "K") != engine:
            continue
        if not re.search(e.get("harness", ".*"), name):
            continue
        if not re.search(e.get("check", ".*"), desc):
            continue
        if not re.search(e.get("where", ".*"), loc):
            continue
        return e
    return None


def run_property(pid, tier, args):
    t0 = time.time()
    if pid not in PROPS:
        print("unknown property", pid)
        return C.EXIT_INCONCLUSIVE
    known = C.load_known()
    hs = [h for h in K.discover() if h.in_tier(pid, tier)]
    # VERIF_SEED rotates secondary variants: of each seed group keep one member in the quick tier
    if tier == "quick":
        groups = {}
        for h in hs:
            if h.seedgrp:
                groups.setdefault(h.seedgrp, []).append(h)
        drop = set()
        for g, members in groups.items():
            members.sort(key=lambda h: h.name)
            keep = members[C.seed() % len(members)]
            drop |= {m.name for m in members if m is not keep}
        hs = [h for h in hs if h.name not in drop]
    if args.only:
        hs = [h for h in hs if args.only in h.name]

    mqueries = []
    try:
        from . import mirsmt_driver as M
        mqueries = M.select(pid, tier, args.only)
    except ImportError:
        M = None

    if args.list:
        for h in hs:
            print("K", h.name, h.tier, "unwind=%s" % h.unwind)
        for q in mqueries:
            print("M", q.name)
        return 0

    if not hs and not mqueries:
        print("no checks registered for", pid)
        return C.EXIT_INCONCLUSIVE

    scratch = C.make_scratch(pid)
    logdir = os.path.join(scratch, "logs")
    os.makedirs(logdir, exist_ok=True)
    keep_logs = os.environ.get("VERIF_LOGDIR")
    samples, inconclusive, violations, known_lines = [], [], [], []
    evaluations = 0
    nontrivial = 0
    solver_s = 0.0
    functions = set()
    exit_code = C.EXIT_OK

    # ---------------- Engine K
    if hs:
        rc = C.copy_repo(scratch)
        K.overlay(rc)
        ok, blog, bt = K.build(rc, logdir, hs)
        C.log("[K] build %s in %.0fs" % ("ok" if ok else "FAILED", bt))
        if not ok:
            errs = [l for l in blog.split("\n") if l.startswith("error")][:5]
            inconclusive.append("harnesses do not compile against this tree: " + " | ".join(errs))
            C.log(blog[-3000:])
        else:
            jobs = max(1, min(args.jobs, len(hs)))
            with cf.ThreadPoolExecutor(max_workers=jobs) as ex:
                futs = {ex.submit(K.run_one, h, rc, logdir): h for h in sorted(hs, key=lambda h: -h.timeout)}
                results = {}
                for f in cf.as_completed(futs):
                    h = futs[f]
                    r = f.result()
                    results[h.name] = r
                    cl = K.classify(h, r, pid)
                    C.log("[K] %-60s %-12s %6.0fs %s" % (h.name, cl["status"], r["wall"], cl["reason"][:150]))
            for h in hs:
                r = results[h.name]
                cl = K.classify(h, r, pid)
                evaluations += 1
                solver_s += r.get("time") or 0.0
                ncov = sum(1 for c in r["covers"] if c["status"] == "SATISFIED")
                if cl["status"] != "inconclusive" and (ncov > 0 or not r["covers"]):
                    nontrivial += 1
                sample = {
                    "engine": "K", "harness": h.name, "bounds": h.bounds, "unwind": h.unwind,
                    "verdict": cl["status"], "cbmc_checks": len(r["checks"]),
                    "cbmc_failed": sum(1 for c in r["checks"] if c["status"] == "FAILURE"),
                    "covers_satisfied": ncov, "covers_total": len(r["covers"]),
                    "solver_s": r.get("time"), "wall_s": round(r["wall"], 1),
                }
                if cl["status"] == "inconclusive":
                    sample["reason"] = cl["reason"]
                    inconclusive.append(h.name + ": " + cl["reason"])
                elif cl["status"] == "fail":
                    fl = cl["failures"]
                    sample["failures"] = [{"desc": c["desc"], "loc": c["loc"]} for c in fl[:8]]
                    unknown = [c for c in fl if not known_match(known, pid, h.name, c["desc"], c["loc"])]
                    if not unknown:
                        for c in fl:
                            e = known_match(known, pid, h.name, c["desc"], c["loc"])
                            line = "KNOWN-FINDING: property=%s %s" % (pid, e["what"])
                            if line not in known_lines:
                                known_lines.append(line)
                        sample["verdict"] = "known-finding"
                    else:
                        # replay natively before reporting
                        pb = K.playback(h, rc, logdir)
                        sample["replay"] = {k: pb.get(k) for k in ("dev_fails", "release_fails", "dev_fails_msg", "release_fails_msg")}
                        memsafe = any(any(w in c["desc"] for w in K.MEMSAFE) for c in unknown)
                        reproduced = bool(pb.get("dev_fails")) or bool(pb.get("release_fails"))
                        if reproduced or (memsafe and pb.get("test_src")):
                            os.makedirs(C.REPLAY_DIR, exist_ok=True)
                            rp = os.path.join(C.REPLAY_DIR, "%s-%s.json" % (pid, h.name.replace("::", "__")))
                            with open(rp, "w") as f:
                                json.dump({"engine": "K", "property": pid, "harness": h.name, "file": h.file,
                                           "failed_checks": sample["failures"], "test_src": pb["test_src"],
                                           "reproduced_natively": reproduced,
                                           "note": "" if reproduced else "memory-safety class check; no native symptom (UB is not observable by a plain run) - triage by reading"},
                                          f, indent=1)
                            violations.append((h.name, rp, unknown[0]["desc"]))
                        else:
                            inconclusive.append(h.name + ": solver counterexample did not reproduce natively (%s)" % unknown[0]["desc"][:120])
                            sample["verdict"] = "non-reproducing"
                samples.append(sample)
            if keep_logs:
                os.makedirs(keep_logs, exist_ok=True)
                os.system("cp -r %s/* %s/ 2>/dev/null" % (logdir, keep_logs))

    # ---------------- Engine M
    mev = None
    if mqueries:
        mev = M.run(pid, tier, mqueries, scratch, logdir, known)
        evaluations += mev["evaluations"]
        nontrivial += mev["nontrivial"]
        solver_s += mev["solver_s"]
        samples += mev["samples"]
        inconclusive += mev["inconclusive"]
        violations += mev["violations"]
        for l in mev["known_lines"]:
            if l not in known_lines:
                known_lines.append(l)
        functions |= set(mev.get("functions", []))

    for l in known_lines:
        print(l)
    for (name, rp, desc) in violations:
        print("VIOLATION property=%s replay=%s" % (pid, rp))
        C.log("   %s: %s" % (name, desc))
    if violations:
        exit_code = C.EXIT_VIOLATION
    elif inconclusive:
        exit_code = C.EXIT_INCONCLUSIVE
        for i in inconclusive:
            print("INCONCLUSIVE: " + i[:300])

    wall = time.time() - t0
    # model_checking keys: symbolic states / transitions encoded and native validations performed (all counted on this run)
    n_states = n_trans = n_valid = 0
    for smp in samples:
        if smp.get("engine") == "K":
            # one symbolic pre-state (every state satisfying the harness's assumptions) and one per executed operation;
            # CBMC reports no state count, so this is the number of symbolic states the harness names, not an exploration size
            n_states += 2
            n_trans += 1
            if smp.get("replay"):
                n_valid += 1
        else:
            st = smp.get("unrolled_steps") or sum(o.get("paths", 0) for o in smp.get("obligations", []) or []) or 1
            n_states += st + 1
            n_trans += st
            if smp.get("replay"):
                n_valid += 1
    cov = {
        "states": max(n_states, 1),
        "transitions": max(n_trans, 1),
        "traces_validated_against_impl": n_valid,
        "evaluations": max(evaluations, 1),
        "distinct_nontrivial": nontrivial,
        "rule": "one evaluation = one solver query (a Kani harness = one CBMC SAT problem deciding all its checks for every value of its symbolic inputs within the stated bounds; an Engine-M query = one z3 query over all schedules/inputs within its bounds). Non-trivial = the query's vacuity witnesses (kani::cover! / SAT twin) were satisfied, i.e. the interesting branches are reachable under the assumptions. Harness names are distinct queries. states/transitions = symbolic states and steps encoded (Engine M: unrolled plan steps per query, effects mode: explored paths; Engine K: the symbolic pre-state and the post-state of each harness), traces_validated_against_impl = native replays performed on this run (translator self-test, counterexamples, playback).",
        "samples": samples,
        "exhaustive": False,
        "solver_time_s": round(solver_s, 1),
        "inconclusive": inconclusive,
        "known_findings_reported": known_lines,
        "repo_fingerprint": C.repo_fingerprint(),
        "engines": sorted(set(s["engine"] for s in samples)),
    }
    if functions:
        cov["functions_encoded"] = sorted(functions)
    assumptions = list(ASSUMPTIONS_K) if hs else []
    if mev:
        assumptions += mev.get("assumptions", [])
    C.write_evidence(pid, tier, "model_checking", cov, assumptions, wall, len(violations), partial=bool(args.only))
    C.log("[%s] %s tier: %d queries, %d non-trivial, %d violations, %d inconclusive, %.0fs" %
          (pid, tier, evaluations, nontrivial, len(violations), len(inconclusive), wall))
    return exit_code
