#!/bin/bash
# developer helper: overlay into a persistent scratch copy and compile the harnesses (no verification)
set -e
D=${1:-/var/tmp/rv-dev}
mkdir -p $D
rsync -a --delete --exclude /target --exclude .git /repo/ $D/repo/
python3 - <<PY
import sys; sys.path.insert(0,'/verif')
from vlib import kani as K
K.overlay('$D/repo')
PY
cd $D/repo/rarena-allocator && CARGO_NET_OFFLINE=true cargo kani --no-default-features --features alloc --only-codegen --harness ${3:-c16_check_capacity_iff} 2>&1 | grep -E "^error" -A14 | head -${2:-80}
