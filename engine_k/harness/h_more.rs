//! Overlay module (child of the crate root): C09 (read-only mutators), C11 (sync == unsync),
//! C13 (handles release exactly once), C18 (truncate). Reuses the INV machinery of `vk_lib`.
#![allow(dead_code, unused_imports, unused_variables, unused_mut, clippy::all)]
use super::*;
use crate::vk_lib::*;
use crate::{sync, unsync};

// =============================================================================================
// C11: the same symbolic pre-state, the same call, on one arena of each flavour
// =============================================================================================
#[derive(Clone, Copy)]
pub(crate) enum Op {
  AllocBytes,
  AllocAligned,
  AllocTyped,
  Dealloc,
  Discard,
  Rewind,
  Knobs,
  Clear,
}

fn err_kind(e: &Error) -> u8 {
  match e {
    Error::InsufficientSpace { .. } => 1,
    Error::ReadOnly => 2,
    _ => 3,
  }
}

pub(crate) fn diff_step<T, const N: usize, const M: usize, const CAP: usize>(fl: Freelist, op: Op) {
  let l = lay(0, CAP as u32);
  let s: sync::Arena = mk::<sync::Arena>(fl, 1, &l, 20);
  let u: unsync::Arena = mk::<unsync::Arena>(fl, 1, &l, 20);
  assert!(s.data_offset() == u.data_offset(), "C11: same data offset");
  let pre = Pre::<N>::any(&l, fl);
  let data: [u8; CAP] = kani::any();
  unsafe {
    poke::<sync::Arena, N, CAP>(&s, &l, &pre, &data);
    poke::<unsync::Arena, N, CAP>(&u, &l, &pre, &data);
  }
  assert!(s.allocated() == pre.allocated as usize && u.allocated() == pre.allocated as usize, "ENC: allocated readback");
  assert!(s.discarded() == pre.discarded && u.discarded() == pre.discarded, "ENC: discarded readback");
  assert!(s.minimum_segment_size() == pre.min_seg && u.minimum_segment_size() == pre.min_seg, "ENC: min segment readback");

  let mut w1 = true; // vacuity witnesses of the operation under test (covered after the match)
  let mut w2 = true;
  match op {
    Op::AllocBytes | Op::AllocAligned | Op::AllocTyped => {
      let n: u32 = kani::any();
      kani::assume(n <= 2 * CAP as u32);
      let kind = match op {
        Op::AllocBytes => Kind::Bytes,
        Op::AllocAligned => Kind::Aligned,
        _ => Kind::Typed,
      };
      let gs = do_alloc::<sync::Arena, T>(&s, kind, n);
      let gu = do_alloc::<unsync::Arena, T>(&u, kind, n);
      assert!(gs.ok == gu.ok, "C11: both flavours succeed or fail on the same call");
      assert!(gs.space_err == gu.space_err && gs.ro_err == gu.ro_err, "C11: same error kind");
      if gs.ok {
        assert!(gs.o == gu.o && gs.c == gu.c, "C11: same offset and capacity");
        assert!(gs.bo == gu.bo && gs.bc == gu.bc, "C11: same buffer extent");
      }
      w1 = gs.ok && gs.bo != pre.allocated; // served from the list
      w2 = !gs.ok; // both fail
    }
    Op::Dealloc => {
      let o: u32 = kani::any();
      let sz: u32 = kani::any();
      kani::assume(sz >= 1 && o >= l.dofs && o <= pre.allocated && sz <= pre.allocated - o);
      kani::assume(pre.clear_of(o, sz));
      let rs = unsafe { s.dealloc(o, sz) };
      let ru = unsafe { u.dealloc(o, sz) };
      assert!(rs == ru, "C11: dealloc reports the same result");
      w1 = rs && o + sz != pre.allocated; // became a segment
      w2 = !rs; // too small to become one
    }
    Op::Discard => {
      let rs = s.discard_freelist();
      let ru = u.discard_freelist();
      match (rs, ru) {
        (Ok(a), Ok(b)) => assert!(a == b, "C11: discard_freelist returns the same amount"),
        _ => assert!(false, "C11: discard_freelist succeeds on both"),
      }
      w1 = pre.k == N; // a full-length list is discarded
    }
    Op::Rewind => {
      let pos = any_pos();
      unsafe {
        s.rewind(pos);
        u.rewind(pos);
      }
    }
    Op::Knobs => {
      let d: u32 = kani::any();
      let m: u32 = kani::any();
      kani::assume(d as u64 + pre.discarded as u64 <= u32::MAX as u64);
      s.increase_discarded(d);
      u.increase_discarded(d);
      s.set_minimum_segment_size(m);
      u.set_minimum_segment_size(m);
    }
    Op::Clear => {
      let rs = unsafe { s.clear() };
      let ru = unsafe { u.clear() };
      assert!(rs.is_ok() && ru.is_ok(), "C11: clear succeeds on both");
    }
  }
  kani::cover!(w1, "witness 1 of the operation (list served / segment created / full list)");
  kani::cover!(w2, "witness 2 of the operation (failure / too small)");
  assert!(s.allocated() == u.allocated(), "C11: same allocated() after the call");
  assert!(s.discarded() == u.discarded(), "C11: same discarded() after the call");
  assert!(s.remaining() == u.remaining(), "C11: same remaining() after the call");
  assert!(s.minimum_segment_size() == u.minimum_segment_size(), "C11: same minimum segment size after the call");
  // free-list contents: walked from the sentinel in both memories
  let posts: Post<M> = unsafe { read_post::<sync::Arena, M>(&s, &l, CAP as u32) };
  let postu: Post<M> = unsafe { read_post::<unsync::Arena, M>(&u, &l, CAP as u32) };
  assert!(posts.n == postu.n && posts.terminated == postu.terminated && posts.wellformed == postu.wellformed, "C11: same free-list length after the call");
  let mut i = 0;
  while i < M {
    if i < posts.n {
      assert!(posts.off[i] == postu.off[i] && posts.size[i] == postu.size[i], "C11: same free-list contents after the call");
    }
    i += 1;
  }
  // one symbolic byte of the whole memory (header, nodes, data). Where a node was taken off the list the
  // lock-free flavour leaves its removal mark in the 8 bytes of the dead node header - memory that is
  // handed out or discarded, not state - so the byte image is only compared for the other operations.
  if matches!(op, Op::Dealloc | Op::Rewind | Op::Knobs | Op::Clear) {
    let x: u32 = kani::any();
    kani::assume(x < CAP as u32);
    kani::assume(x < l.hdr + 20 || x >= l.hdr + 24); // the 4 padding bytes of the repr(C) header hold no state
    let (ps, pu) = (s.raw_ptr(), u.raw_ptr());
    assert!(unsafe { rd8(ps, x) == rd8(pu, x) }, "C11: same memory image (free list, header, data) after the call");
  }
  core::mem::forget(s);
  core::mem::forget(u);
}

macro_rules! c11 {
  ($name:ident, $ty:ty, $fl:ident, $op:ident, $n:expr, $m:expr, $cap:expr, $unwind:expr) => {
    #[kani::proof]
    #[kani::unwind($unwind)]
    fn $name() {
      diff_step::<$ty, $n, $m, $cap>(Freelist::$fl, Op::$op);
    }
  };
}
// @h props=C11 tier=quick timeout=2400 bounds=CAP=96,MAXN=2,n<=192,retries=1
c11!(c11_alloc_bytes_opt, u8, Optimistic, AllocBytes, 2, 3, 96, 5);
// @h props=C11 tier=quick timeout=2400 bounds=CAP=96,MAXN=2,retries=1
c11!(c11_dealloc_pess, u8, Pessimistic, Dealloc, 2, 3, 96, 5);
// @h props=C11 tier=quick timeout=1800 bounds=CAP=96,MAXN=2
c11!(c11_discard_opt, u8, Optimistic, Discard, 2, 3, 96, 5);
// @h props=C11 tier=quick timeout=900 bounds=CAP=96,MAXN=1,pos:full-range
c11!(c11_rewind_opt, u8, Optimistic, Rewind, 1, 2, 96, 4);
// @h props=C11 tier=quick timeout=900 bounds=CAP=96,MAXN=1,d:any,m:any
c11!(c11_knobs_pess, u8, Pessimistic, Knobs, 1, 2, 96, 4);
// @h props=C11 tier=thorough timeout=2400 bounds=CAP=96,MAXN=2,n<=192,retries=1
c11!(c11_alloc_bytes_pess, u8, Pessimistic, AllocBytes, 2, 3, 96, 5);
// @h props=C11 tier=thorough timeout=2400 bounds=CAP=96,MAXN=2,T=u64,n<=192
c11!(c11_alloc_aligned_u64_opt, u64, Optimistic, AllocAligned, 2, 3, 96, 5);
// @h props=C11 tier=thorough timeout=2400 bounds=CAP=96,MAXN=2,T=u32
c11!(c11_alloc_typed_u32_pess, u32, Pessimistic, AllocTyped, 2, 3, 96, 5);
// @h props=C11 tier=thorough timeout=2400 bounds=CAP=96,MAXN=2
c11!(c11_dealloc_opt, u8, Optimistic, Dealloc, 2, 3, 96, 5);
// @h props=C11 tier=thorough timeout=1800 bounds=CAP=96,MAXN=2
c11!(c11_discard_pess, u8, Pessimistic, Discard, 2, 3, 96, 5);
// @h props=C11 tier=thorough timeout=1800 bounds=CAP=96,MAXN=2
c11!(c11_clear_opt, u8, Optimistic, Clear, 2, 3, 96, 5);
// @h props=C11 tier=thorough timeout=900 bounds=CAP=96,list=None,n<=192 optcover=witness_1
c11!(c11_alloc_bytes_none, u8, None, AllocBytes, 1, 2, 96, 4);
// @h props=C11 tier=thorough timeout=900 bounds=CAP=96,list=None optcover=witness_1|witness_2
c11!(c11_dealloc_none, u8, None, Dealloc, 1, 2, 96, 4);

// =============================================================================================
// C13: Drop == dealloc(buffer extent) exactly once; detach releases nothing; owned == borrowed
// =============================================================================================
#[derive(Clone, Copy, PartialEq, Eq)]
pub(crate) enum How {
  DropBorrowed,
  DropOwned,
  Detached,
  DetachedOwned,
}

/// Two arenas driven through the same short history; in `a` the handle is disposed of as `how`
/// says, in `b` it is forgotten and the reference action is applied directly.
pub(crate) fn c13_bytes<A: Allocator, const CAP: usize>(fl: Freelist, how: How) {
  let l = lay(0, CAP as u32);
  let a: A = mk::<A>(fl, 1, &l, 8);
  let b: A = mk::<A>(fl, 1, &l, 8);
  let n1: u32 = kani::any();
  let n2: u32 = kani::any();
  let n3: u32 = kani::any();
  kani::assume(n1 <= 24 && n2 >= 1 && n2 <= 40 && n3 <= 24);
  kani::assume(n1 + n2 + n3 <= CAP as u32 - l.dofs); // the three allocations fit fresh space
  // same history on both: a first neighbour, the handle under test, optionally a neighbour on top
  let (ea, eb);
  {
    let mut x = a.alloc_bytes(n1).unwrap();
    unsafe { x.detach() };
    core::mem::forget(x);
    let mut y = b.alloc_bytes(n1).unwrap();
    unsafe { y.detach() };
    core::mem::forget(y);
  }
  let refs0 = a.refs();
  {
    let mut ha = a.alloc_bytes(n2).unwrap();
    let mut hb = b.alloc_bytes(n2).unwrap();
    ea = (ha.buffer_offset() as u32, ha.buffer_capacity() as u32);
    eb = (hb.buffer_offset() as u32, hb.buffer_capacity() as u32);
    assert!(ea.0 == eb.0 && ea.1 == eb.1, "ENC: twin arenas agree");
    {
      let mut x = a.alloc_bytes(n3).unwrap();
      unsafe { x.detach() };
      core::mem::forget(x);
      let mut y = b.alloc_bytes(n3).unwrap();
      unsafe { y.detach() };
      core::mem::forget(y);
    }
    unsafe { hb.detach() };
    core::mem::forget(hb);
    match how {
      How::DropBorrowed => drop(ha),
      How::DropOwned => {
        let o = ha.to_owned();
        assert!(a.refs() == refs0 + 1, "C13: an owned handle holds one arena reference");
        drop(ha); // the borrowed handle was detached by to_owned: releases nothing
        assert!(a.allocated() == b.allocated() && a.discarded() == b.discarded(), "C13: the borrowed handle releases nothing after to_owned");
        drop(o);
        assert!(a.refs() == refs0, "C13: dropping the owned handle gives its arena reference back");
      }
      How::Detached => {
        unsafe { ha.detach() };
        drop(ha);
      }
      How::DetachedOwned => {
        let mut o = ha.to_owned();
        unsafe { o.detach() };
        drop(o);
        drop(ha);
        assert!(a.refs() == refs0, "C13: dropping the owned handle gives its arena reference back");
      }
    }
  }
  // reference action on b
  match how {
    How::DropBorrowed | How::DropOwned => {
      unsafe { b.dealloc(eb.0, eb.1) };
    }
    _ => {}
  }
  assert!(a.allocated() == b.allocated(), "C13: Drop releases exactly the handle's buffer extent, once (cursor)");
  assert!(a.discarded() == b.discarded(), "C13: Drop releases exactly the handle's buffer extent, once (discarded)");
  let x: u32 = kani::any();
  kani::assume(x < CAP as u32);
  kani::assume(x < l.hdr + 20 || x >= l.hdr + 24); // the 4 padding bytes of the repr(C) header hold no state
  assert!(unsafe { rd8(a.raw_ptr(), x) == rd8(b.raw_ptr(), x) }, "C13: Drop releases exactly the handle's buffer extent, once (free list and memory image)");
  kani::cover!(n3 > 0 && ea.1 >= 16, "non-top release that becomes a segment");
  kani::cover!(n3 == 0, "top release");
  core::mem::forget(a);
  core::mem::forget(b);
}

macro_rules! c13b {
  ($name:ident, $arena:ty, $fl:ident, $how:ident) => {
    #[kani::proof]
    #[kani::unwind(4)]
    fn $name() {
      c13_bytes::<$arena, 96>(Freelist::$fl, How::$how);
    }
  };
}
// @h props=C13 tier=quick timeout=1800 bounds=CAP=96,history=3allocs,n1<=24,n2<=40,n3<=24
c13b!(c13_drop_bytes_unsync_opt, unsync::Arena, Optimistic, DropBorrowed);
// @h props=C13 tier=quick timeout=1800 bounds=CAP=96,history=3allocs,n1<=24,n2<=40,n3<=24
c13b!(c13_drop_owned_bytes_sync_pess, sync::Arena, Pessimistic, DropOwned);
// @h props=C13 tier=quick timeout=1800 bounds=CAP=96,history=3allocs
c13b!(c13_detached_bytes_sync_opt, sync::Arena, Optimistic, Detached);
// @h props=C13 tier=thorough timeout=1800 bounds=CAP=96,history=3allocs
c13b!(c13_drop_bytes_sync_opt, sync::Arena, Optimistic, DropBorrowed);
// @h props=C13 tier=thorough timeout=1800 bounds=CAP=96,history=3allocs
c13b!(c13_drop_owned_bytes_unsync_opt, unsync::Arena, Optimistic, DropOwned);
// @h props=C13 tier=thorough timeout=1800 bounds=CAP=96,history=3allocs
c13b!(c13_detached_owned_bytes_unsync_pess, unsync::Arena, Pessimistic, DetachedOwned);
// @h props=C13 tier=thorough timeout=1800 bounds=CAP=96,history=3allocs,list=None optcover=non-top_release_that_becomes_a_segment
c13b!(c13_drop_bytes_unsync_none, unsync::Arena, None, DropBorrowed);

// ---- typed handles: value dropped exactly once, memory released exactly once
static mut DROPS: u32 = 0;
pub(crate) struct Counted(u64);
impl Drop for Counted {
  fn drop(&mut self) {
    unsafe { DROPS += 1 };
  }
}

pub(crate) fn c13_typed<A: Allocator, const CAP: usize>(fl: Freelist, how: How) {
  let l = lay(0, CAP as u32);
  let a: A = mk::<A>(fl, 1, &l, 8);
  let b: A = mk::<A>(fl, 1, &l, 8);
  let n1: u32 = kani::any();
  let top: bool = kani::any();
  kani::assume(n1 <= 9);
  unsafe { DROPS = 0 };
  {
    let mut x = a.alloc_bytes(n1).unwrap();
    unsafe { x.detach() };
    core::mem::forget(x);
    let mut y = b.alloc_bytes(n1).unwrap();
    unsafe { y.detach() };
    core::mem::forget(y);
  }
  let refs0 = a.refs();
  let eb;
  {
    let mut ha = unsafe { a.alloc::<Counted>().unwrap() };
    let mut hb = unsafe { b.alloc::<Counted>().unwrap() };
    eb = (hb.buffer_offset() as u32, hb.buffer_capacity() as u32);
    assert!(ha.buffer_offset() == hb.buffer_offset() && ha.buffer_capacity() == hb.buffer_capacity(), "ENC: twin arenas agree");
    assert!(ha.offset() % 8 == 0 && ha.capacity() == 8, "C03: typed handle aligned with the size of T");
    ha.write(Counted(7));
    unsafe { hb.detach() };
    core::mem::forget(hb);
    if !top {
      let mut x = a.alloc_bytes(5).unwrap();
      unsafe { x.detach() };
      core::mem::forget(x);
      let mut y = b.alloc_bytes(5).unwrap();
      unsafe { y.detach() };
      core::mem::forget(y);
    }
    match how {
      How::DropBorrowed => {
        drop(ha);
        assert!(unsafe { DROPS } == 1, "C13: the value is dropped exactly once with its handle");
      }
      How::DropOwned => {
        let o = ha.to_owned();
        assert!(a.refs() == refs0 + 1, "C13: an owned handle holds one arena reference");
        drop(ha);
        assert!(unsafe { DROPS } == 0, "C13: the detached borrowed handle does not drop the value");
        drop(o);
        assert!(unsafe { DROPS } == 1, "C13: the value is dropped exactly once with its owned handle");
        assert!(a.refs() == refs0, "C13: dropping the owned handle gives its arena reference back");
      }
      How::Detached => {
        unsafe { ha.detach() };
        drop(ha);
        assert!(unsafe { DROPS } == 0, "C13: a detached handle drops nothing");
      }
      How::DetachedOwned => {
        let mut o = ha.to_owned();
        unsafe { o.detach() };
        drop(o);
        drop(ha);
        assert!(unsafe { DROPS } == 0, "C13: a detached owned handle drops nothing");
      }
    }
  }
  match how {
    How::DropBorrowed | How::DropOwned => {
      unsafe { b.dealloc(eb.0, eb.1) };
    }
    _ => {}
  }
  assert!(a.allocated() == b.allocated() && a.discarded() == b.discarded(), "C13: typed Drop releases exactly the handle's buffer extent, once");
  let x: u32 = kani::any();
  kani::assume(x < CAP as u32);
  kani::assume(x < l.hdr + 20 || x >= l.hdr + 24); // the 4 padding bytes of the repr(C) header hold no state
  // the value bytes themselves are not compared (a: written 7, b: not written)
  kani::assume(x < eb.0 || x >= eb.0 + eb.1);
  assert!(unsafe { rd8(a.raw_ptr(), x) == rd8(b.raw_ptr(), x) }, "C13: typed Drop leaves the same free list and memory image as one dealloc of its extent");
  kani::cover!(!top, "non-top typed release");
  kani::cover!(top, "top typed release");
  core::mem::forget(a);
  core::mem::forget(b);
}
macro_rules! c13t {
  ($name:ident, $arena:ty, $fl:ident, $how:ident) => {
    #[kani::proof]
    #[kani::unwind(4)]
    fn $name() {
      c13_typed::<$arena, 96>(Freelist::$fl, How::$how);
    }
  };
}
// @h props=C13 tier=quick timeout=1800 bounds=CAP=96,T=Counted(u64)+Drop
c13t!(c13_typed_drop_unsync_pess, unsync::Arena, Pessimistic, DropBorrowed);
// @h props=C13 tier=quick timeout=1800 bounds=CAP=96,T=Counted(u64)+Drop
c13t!(c13_typed_owned_sync_opt, sync::Arena, Optimistic, DropOwned);
// @h props=C13 tier=thorough timeout=1800 bounds=CAP=96,T=Counted(u64)+Drop
c13t!(c13_typed_detached_sync_pess, sync::Arena, Pessimistic, Detached);
// @h props=C13 tier=quick timeout=1800 bounds=CAP=96,T=Counted(u64)+Drop,detached-owned
c13t!(c13_typed_detached_owned_unsync_opt, unsync::Arena, Optimistic, DetachedOwned);

/// refs() == number of live arena values (clones + the clone inside each owned handle); the
/// memory stays valid until the last one goes (Kani's pointer checks catch a use after free and
/// a double free).
pub(crate) fn c13_refs<A: Allocator>() {
  let l = lay(0, 96);
  let a: A = mk::<A>(Freelist::Optimistic, 1, &l, 8);
  assert!(a.refs() == 1, "C13: a fresh arena has one reference");
  let c1 = a.clone();
  assert!(a.refs() == 2, "C13: clone adds one reference");
  let mut ob = a.alloc_bytes_owned(8).unwrap();
  assert!(c1.refs() == 3, "C13: an owned buffer counts as one arena value");
  let mut ot = unsafe { c1.alloc_owned::<u32>().unwrap() };
  assert!(c1.refs() == 4, "C13: an owned object counts as one arena value");
  let order: u8 = kani::any();
  kani::assume(order < 3);
  // drop the original arena first / in the middle / last
  if order == 0 {
    drop(a);
    assert!(c1.refs() == 3, "C13: dropping the original arena releases one reference");
    ob.put_u8(1).unwrap(); // memory still alive
    drop(c1);
    ot.write(5);
    assert!(unsafe { *ot.as_ref() } == 5, "C13: owned handle keeps the memory alive");
    drop(ob);
    drop(ot);
  } else if order == 1 {
    drop(ob);
    assert!(a.refs() == 3, "C13: dropping an owned buffer releases one reference");
    drop(a);
    drop(ot);
    assert!(c1.refs() == 1, "C13: one arena value left");
    let h = c1.alloc_bytes(4);
    assert!(h.is_ok(), "C13: last clone still usable");
    drop(h);
    drop(c1);
  } else {
    drop(ot);
    drop(ob);
    drop(c1);
    assert!(a.refs() == 1, "C13: back to one reference");
    drop(a);
  }
}
// @h props=C13 tier=quick timeout=1800 bounds=CAP=96,clone/owned/drop-orders=3
#[kani::proof]
#[kani::unwind(4)]
fn c13_refs_unsync() {
  c13_refs::<unsync::Arena>();
}
// @h props=C13 tier=quick timeout=1800 bounds=CAP=96,clone/owned/drop-orders=3
#[kani::proof]
#[kani::unwind(4)]
fn c13_refs_sync() {
  c13_refs::<sync::Arena>();
}

// =============================================================================================
// C18: unsync::Arena::truncate
// =============================================================================================
pub(crate) fn c18_truncate<const N: usize, const M: usize, const CAP: usize>(fl: Freelist, fixed: Option<usize>, nmax: usize) {
  let l = lay(0, CAP as u32);
  let mut arena: unsync::Arena = mk::<unsync::Arena>(fl, 1, &l, 8);
  let pre = Pre::<N>::any(&l, fl);
  let data: [u8; CAP] = kani::any();
  unsafe { poke::<unsync::Arena, N, CAP>(&arena, &l, &pre, &data) };
  assert!(arena.allocated() == pre.allocated as usize, "ENC: allocated readback");
  let x: u32 = kani::any();
  kani::assume(x < pre.allocated);
  let before = unsafe { rd8(arena.raw_ptr(), x) };
  let n: usize = match fixed {
    Some(v) => v,
    None => {
      let v: usize = kani::any();
      kani::assume(v <= nmax);
      v
    }
  };
  arena.truncate(n);
  let newcap = if n > pre.allocated as usize { n } else { pre.allocated as usize };
  assert!(arena.capacity() == newcap, "C18: capacity() == max(n, allocated())");
  assert!(arena.allocated() == pre.allocated as usize, "C18: truncate keeps allocated()");
  assert!(arena.discarded() == pre.discarded, "C18: truncate keeps discarded()");
  assert!(arena.minimum_segment_size() == pre.min_seg, "C18: truncate keeps the minimum segment size");
  assert!(arena.remaining() == newcap - pre.allocated as usize, "C18: remaining() follows the new capacity");
  assert!(unsafe { rd8(arena.raw_ptr(), x) } == before, "C18: every byte below allocated() unchanged (header, free list, data)");
  let post: Post<M> = unsafe { read_post::<unsync::Arena, M>(&arena, &l, newcap as u32) };
  assert!(list_unchanged(&pre, &post), "C18: truncate keeps the free list");
  // afterwards allocations succeed exactly when they fit the new capacity (or the list serves them)
  let m: u32 = kani::any();
  kani::assume(m >= 1 && m <= 4 * CAP as u32);
  let g = do_alloc::<unsync::Arena, u8>(&arena, Kind::Bytes, m);
  let fits = pre.allocated as u64 + m as u64 <= newcap as u64;
  if fits {
    assert!(g.ok && g.bo == pre.allocated, "C18: a request that fits the new capacity succeeds from fresh space");
    let z: u32 = kani::any();
    kani::assume(z >= g.o && z - g.o < g.c);
    assert!(unsafe { rd8(arena.raw_ptr(), z) } == 0, "C08: memory handed out after truncate is zero-filled");
  } else {
    let mut can = false;
    let mut i = 0;
    while i < N {
      if i < pre.k && pre.size[i] >= m {
        can = true;
      }
      i += 1;
    }
    if matches!(fl, Freelist::Optimistic) {
      can = pre.k > 0 && pre.size[0] >= m;
    }
    assert!(g.ok == can, "C18: a request beyond the new capacity succeeds iff the free list can serve it");
    if g.ok {
      assert!(g.bo as u64 + g.bc as u64 <= pre.allocated as u64, "C18: served from below the cursor");
    }
  }
  kani::cover!(fixed.is_some() || n < pre.allocated as usize, "shrink below allocated is floored");
  kani::cover!(fixed.is_some() || n > CAP, "grow");
  kani::cover!(fixed.is_some() || (n < CAP && n > pre.allocated as usize), "shrink");
  kani::cover!(!fits && g.ok, "served by list after truncate");
  kani::cover!(fits && g.ok, "served from fresh space after truncate");
  core::mem::forget(arena);
}
macro_rules! c18 {
  ($name:ident, $fl:ident, $n:expr, $m:expr, $fixed:expr, $nmax:expr, $unwind:expr) => {
    #[kani::proof]
    #[kani::unwind($unwind)]
    fn $name() {
      c18_truncate::<$n, $m, 64>(Freelist::$fl, $fixed, $nmax);
    }
  };
}
// The INV-step form of this check (symbolic cursor) makes `truncate` copy a symbolic number of
// bytes into a fresh backing store and CBMC runs out of memory (12 GB) in the propositional
// reduction, also with a concrete new size; so the pre-state is built by a concrete-sized history
// (cursor concrete) and the new size, the contents and the follow-up request stay symbolic.
// (An INV-pre-state variant, `c18_truncate::<1,2,64>(Optimistic, Some(200), 0)`, ran out of 24 GB and is not registered.)

/// history: a(A bytes) b(8 bytes) [c(rest) if FILL]; release a (becomes a free segment when A >= 16);
/// truncate(n) with n symbolic; then one symbolic request.
pub(crate) fn c18_hist<const A: u32, const FILL: bool>(fl: Freelist, unify: bool, nmax: usize, fixed: Option<usize>, fixed_m: Option<u32>, follow: bool) {
  const CAP: u32 = 64;
  let mut arena: unsync::Arena = Options::new().with_capacity(CAP).with_unify(unify).with_freelist(fl).with_minimum_segment_size(4).alloc::<unsync::Arena>().unwrap();
  let dofs = arena.data_offset() as u32;
  let v: u8 = kani::any();
  let (ao, bo);
  {
    let mut a = arena.alloc_bytes(A).unwrap();
    ao = a.offset() as u32;
    let mut b = arena.alloc_bytes(8).unwrap();
    bo = b.offset() as u32;
    b.put_u8(v).unwrap();
    unsafe { b.detach() };
    core::mem::forget(b);
    if FILL {
      let mut c = arena.alloc_bytes(arena.remaining() as u32).unwrap();
      unsafe { c.detach() };
      core::mem::forget(c);
    }
    drop(a); // not on top: goes to the free list (or is discarded when too small / Freelist::None)
  }
  let (a0, d0, m0) = (arena.allocated(), arena.discarded(), arena.minimum_segment_size());
  let x: u32 = kani::any();
  kani::assume((x as usize) < a0);
  let before = unsafe { rd8(arena.raw_ptr(), x) };
  let n: usize = match fixed {
    Some(v) => v,
    None => {
      let v: usize = kani::any();
      kani::assume(v <= nmax);
      v
    }
  };
  arena.truncate(n);
  let newcap = if n > a0 { n } else { a0 };
  assert!(arena.capacity() == newcap, "C18: capacity() == max(n, allocated())");
  assert!(arena.allocated() == a0, "C18: truncate keeps allocated()");
  assert!(arena.discarded() == d0, "C18: truncate keeps discarded()");
  assert!(arena.minimum_segment_size() == m0, "C18: truncate keeps the minimum segment size");
  assert!(arena.remaining() == newcap - a0, "C18: remaining() follows the new capacity");
  assert!(unsafe { rd8(arena.raw_ptr(), x) } == before, "C18: every byte below allocated() unchanged (header, free list, data)");
  assert!(arena.get_u8(bo as usize).unwrap() == v, "C18: live data survives truncate");
  if !follow {
    // (the follow-up allocation is exercised by the `*_follow` harnesses; with two backing objects alive in the
    //  formula it is what makes CBMC run out of memory)
    kani::cover!(true, "state-only variant: truncate returned");
    core::mem::forget(arena);
    return;
  }
  // afterwards allocations succeed exactly when they fit the new capacity, or the list serves them
  let m: u32 = match fixed_m {
    Some(v) => v,
    None => {
      let v: u32 = kani::any();
      kani::assume(v >= 1 && v <= 48);
      v
    }
  };
  let g = do_alloc::<unsync::Arena, u8>(&arena, Kind::Bytes, m);
  let fits = a0 as u64 + m as u64 <= newcap as u64;
  // the segment made from a: header at the first 8-aligned offset in it
  let seg_start = up(ao, 8);
  let seg_ok = !matches!(fl, Freelist::None) && A >= (seg_start - ao) + 8 + 4 && A > (seg_start - ao) + 8;
  let seg_size = if seg_ok { A - (seg_start - ao) - 8 } else { 0 };
  if fits {
    assert!(g.ok && g.bo as usize == a0, "C18: a request that fits the new capacity is served from fresh space");
    let z: u32 = kani::any();
    kani::assume(z >= g.o && z - g.o < g.c);
    assert!(unsafe { rd8(arena.raw_ptr(), z) } == 0, "C08: memory handed out after truncate is zero-filled");
  } else {
    assert!(g.ok == (seg_ok && m <= seg_size), "C18: a request beyond the new capacity succeeds iff the free list can serve it");
    if g.ok {
      assert!(g.bo == seg_start && (g.o as u64 + g.c as u64) <= (ao + A) as u64, "C18: served from the segment that was on the list before truncate");
    }
  }
  kani::cover!(fixed.is_some() || n < a0, "floored at allocated");
  kani::cover!(fixed.is_some() || (n > CAP as usize && fits), "allocation in grown space");
  kani::cover!(fixed_m.is_some() || (!fits && g.ok), "served by list after truncate");
  kani::cover!(fixed_m.is_some() || (!fits && !g.ok), "refused after truncate");
  core::mem::forget(arena);
}
macro_rules! c18h {
  ($name:ident, $a:expr, $fill:expr, $fl:ident, $unify:expr, $nmax:expr, $fixed:expr) => {
    #[kani::proof]
    #[kani::unwind(4)]
    fn $name() {
      c18_hist::<$a, $fill>(Freelist::$fl, $unify, $nmax, $fixed, None, true);
    }
  };
  ($name:ident, $a:expr, $fill:expr, $fl:ident, $unify:expr, $nmax:expr, $fixed:expr, m $m:expr) => {
    #[kani::proof]
    #[kani::unwind(4)]
    fn $name() {
      c18_hist::<$a, $fill>(Freelist::$fl, $unify, $nmax, $fixed, Some($m), true);
    }
  };
  ($name:ident, $a:expr, $fill:expr, $fl:ident, $unify:expr, $nmax:expr, $fixed:expr, nofollow) => {
    #[kani::proof]
    #[kani::unwind(4)]
    fn $name() {
      c18_hist::<$a, $fill>(Freelist::$fl, $unify, $nmax, $fixed, None, false);
    }
  };
}
// quick: concrete new sizes (below the cursor, equal to the capacity, growing), everything else symbolic
// @h props=C18 tier=quick timeout=1800 mem=28 bounds=CAP=64,unify,history=a(24)b(8)c(rest)-drop(a),n=80(grow),state-only optcover=floored_at_allocated|allocation_in_grown_space|served_by_list_after_truncate|refused_after_truncate|served_from_fresh_space_after_truncate
c18h!(c18_truncate_full_unify_opt_grow80, 24, true, Optimistic, true, 0, Some(80), nofollow);
// @h props=C18 tier=quick timeout=1800 mem=28 bounds=CAP=64,plain,history=a(24)b(8)c(rest)-drop(a),n=10(floored-at-allocated),state-only optcover=floored_at_allocated|allocation_in_grown_space|served_by_list_after_truncate|refused_after_truncate|served_from_fresh_space_after_truncate
c18h!(c18_truncate_full_plain_pess_floor, 24, true, Pessimistic, false, 0, Some(10), nofollow);
// @h props=C18 tier=thorough timeout=1800 mem=28 bounds=CAP=64,plain,history=a(24)b(8)c(rest)-drop(a),n=10(floored-at-allocated),follow-up-request optcover=state-only_variant
c18h!(c18_truncate_full_plain_pess_floor_follow, 24, true, Pessimistic, false, 0, Some(10));
// @h props=C18 tier=quick timeout=1800 mem=28 bounds=CAP=64,unify,history=a(20)b(8)-drop(a),n=48(shrink),state-only optcover=floored_at_allocated|allocation_in_grown_space|served_by_list_after_truncate|refused_after_truncate|served_from_fresh_space_after_truncate
c18h!(c18_truncate_part_unify_opt_shrink48, 20, false, Optimistic, true, 0, Some(48), nofollow);
// @h props=C18 tier=thorough timeout=1800 mem=28 bounds=CAP=64,unify,history=a(20)b(8)-drop(a),n=48(shrink),follow-up-request optcover=state-only_variant
c18h!(c18_truncate_part_unify_opt_shrink48_follow, 20, false, Optimistic, true, 0, Some(48));
// thorough: the new size symbolic as well (a symbolic-sized backing allocation: 13 min / 20 GB class queries)
// @h props=C18,C08 tier=thorough timeout=2400 mem=28 bounds=CAP=64,plain,history=a(24)b(8)c(rest)-drop(a),n<=96:symbolic optcover=floored_at_allocated|allocation_in_grown_space|served_by_list_after_truncate|refused_after_truncate|served_from_fresh_space_after_truncate
c18h!(c18_truncate_full_plain_pess, 24, true, Pessimistic, false, 96, None, nofollow);
// @h props=C18,C08 tier=thorough timeout=2400 mem=28 bounds=CAP=64,unify,history=a(24)b(8)c(rest)-drop(a),n<=96:symbolic optcover=floored_at_allocated|allocation_in_grown_space|served_by_list_after_truncate|refused_after_truncate|served_from_fresh_space_after_truncate
c18h!(c18_truncate_full_unify_opt, 24, true, Optimistic, true, 96, None, nofollow);
// @h props=C18 tier=thorough timeout=1800 mem=28 bounds=CAP=64,unify,history=a(9)b(8)-drop(a):too-small,n=70 optcover=served_by_list_after_truncate|state-only_variant
c18h!(c18_truncate_part_unify_small, 9, false, Optimistic, true, 0, Some(70));
// @h props=C18,C08 tier=quick timeout=1800 mem=28 bounds=CAP=64,unify,list=None,n=70(grow),follow-up-request<=48 optcover=served_by_list_after_truncate|state-only_variant
c18h!(c18_truncate_part_unify_none_follow, 20, false, None, true, 0, Some(70));

// =============================================================================================
// C09 (read-only half): every mutating call of the safe API is refused and the memory never changes
// =============================================================================================
pub(crate) fn c09_ro_mutators<A: Allocator>() {
  const CAP: usize = 64;
  let opts = Options::new().with_capacity(CAP as u32).with_unify(true).with_freelist(Freelist::Optimistic).with_reserved(4);
  let arena: A = crate::memory::vk_mem::make_read_only::<A>(opts);
  assert!(arena.read_only(), "C16: read_only() reports the mode");
  let p = arena.raw_ptr();
  let x: u32 = kani::any();
  kani::assume(x < CAP as u32);
  let before = unsafe { rd8(p, x) };
  let (a0, d0, m0) = (arena.allocated(), arena.discarded(), arena.minimum_segment_size());
  let which: u8 = kani::any();
  kani::assume(which < 6);
  match which {
    0 => {
      assert!(matches!(arena.discard_freelist(), Err(Error::ReadOnly)), "C09: discard_freelist on a read-only arena fails with ReadOnly");
    }
    1 => {
      let r = unsafe { arena.clear() };
      assert!(matches!(r, Err(Error::ReadOnly)), "C09: clear on a read-only arena fails with ReadOnly");
    }
    2 => {
      let m: u32 = kani::any();
      arena.set_minimum_segment_size(m);
    }
    3 => {
      let d: u32 = kani::any();
      kani::assume(d <= 1 << 20);
      arena.increase_discarded(d);
    }
    4 => {
      let n: u32 = kani::any();
      let g = do_alloc::<A, u8>(&arena, Kind::Bytes, n);
      assert!(!g.ok && g.ro_err, "C09: alloc_bytes on a read-only arena fails with ReadOnly");
    }
    _ => {
      let n: u32 = kani::any();
      let g = do_alloc::<A, u64>(&arena, Kind::Aligned, n);
      assert!(!g.ok && g.ro_err, "C09: alloc_aligned_bytes on a read-only arena fails with ReadOnly");
    }
  }
  assert!(unsafe { rd8(p, x) } == before, "C09: a read-only arena never changes its memory (a store here is a fault on a PROT_READ mapping)");
  assert!(arena.allocated() == a0 && arena.discarded() == d0 && arena.minimum_segment_size() == m0, "C09: refused call changes no observable");
  core::mem::forget(arena);
}
// @h props=C09 tier=quick timeout=900 bounds=CAP=64,reserved=4,6-mutators
#[kani::proof]
#[kani::unwind(3)]
fn c09_ro_mutators_sync() {
  c09_ro_mutators::<sync::Arena>();
}
// @h props=C09 tier=quick timeout=900 bounds=CAP=64,reserved=4,6-mutators
#[kani::proof]
#[kani::unwind(3)]
fn c09_ro_mutators_unsync() {
  c09_ro_mutators::<unsync::Arena>();
}

// =============================================================================================
// C17 (plain layout): clear() restores the pristine arena also when the header lives outside the bytes
// =============================================================================================
pub(crate) fn c17_clear_plain<A: Allocator>(fl: Freelist, reserved: u32) {
  const CAP: u32 = 80;
  let mk_ = || Options::new().with_capacity(CAP).with_unify(false).with_freelist(fl).with_reserved(reserved).with_minimum_segment_size(8).with_maximum_retries(1).alloc::<A>().unwrap();
  let arena: A = mk_();
  let fresh: A = mk_();
  let dofs = arena.data_offset();
  assert!(dofs == reserved as usize + 1, "C16: plain layout data offset = reserved + 1");
  // a history that dirties the data area from its very first byte and leaves a free segment behind
  let n1: u32 = kani::any();
  let n2: u32 = kani::any();
  kani::assume(n1 >= 1 && n1 <= 30 && n2 >= 1 && n2 <= 20);
  let v: u8 = kani::any();
  kani::assume(v != 0);
  {
    let mut a = arena.alloc_bytes(n1).unwrap();
    let mut b = arena.alloc_bytes(n2).unwrap();
    unsafe {
      core::ptr::write_bytes(arena.raw_mut_ptr().add(a.offset()), v, n1 as usize);
      core::ptr::write_bytes(arena.raw_mut_ptr().add(b.offset()), v, n2 as usize);
      b.detach();
    }
    core::mem::forget(b);
    drop(a); // not on top: free list / discarded
  }
  arena.increase_discarded(3);
  let r: u32 = kani::any();
  kani::assume(r < reserved.max(1));
  let r_before = unsafe { rd8(arena.raw_ptr(), r) };
  let res = unsafe { arena.clear() };
  assert!(res.is_ok(), "C17: clear succeeds on a writable arena");
  assert!(arena.allocated() == fresh.allocated() && arena.allocated() == dofs, "C17: clear puts the cursor back to data_offset");
  assert!(arena.discarded() == 0, "C17: clear resets discarded()");
  assert!(arena.data_offset() == fresh.data_offset() && arena.capacity() == fresh.capacity(), "C17: clear keeps layout and capacity");
  assert!(arena.minimum_segment_size() == 8, "C17: clear keeps the minimum segment size in force");
  let x: u32 = kani::any();
  kani::assume(x as usize >= dofs && x < CAP);
  assert!(unsafe { rd8(arena.raw_ptr(), x) } == 0, "C17: clear zeroes the whole data area");
  assert!(unsafe { rd8(arena.raw_ptr(), x) == rd8(fresh.raw_ptr(), x) }, "C17: cleared arena indistinguishable from a fresh one");
  if reserved > 0 {
    assert!(unsafe { rd8(arena.raw_ptr(), r) } == r_before, "C17: clear leaves the reserved prefix untouched");
  }
  // and behaves like a fresh one afterwards: the free list is empty, so a request for everything is served from offset data_offset
  let g = do_alloc::<A, u8>(&arena, Kind::Bytes, CAP - dofs as u32);
  assert!(g.ok && g.bo as usize == dofs, "C17: after clear the whole data area is available as fresh space");
  let g2 = do_alloc::<A, u8>(&arena, Kind::Bytes, 1);
  assert!(!g2.ok, "C17: after clear the free list is empty");
  kani::cover!(n1 >= 17, "a free segment existed before clear");
  core::mem::forget(arena);
  core::mem::forget(fresh);
}
// @h props=C17 tier=quick timeout=1200 bounds=CAP=80,plain-layout,reserved=0,history=2allocs+drop
#[kani::proof]
#[kani::unwind(4)]
fn c17_clear_plain_unsync_opt() {
  c17_clear_plain::<unsync::Arena>(Freelist::Optimistic, 0);
}
// @h props=C17 tier=quick timeout=1200 bounds=CAP=80,plain-layout,reserved=5,history=2allocs+drop
#[kani::proof]
#[kani::unwind(4)]
fn c17_clear_plain_sync_pess_r5() {
  c17_clear_plain::<sync::Arena>(Freelist::Pessimistic, 5);
}

// =============================================================================================
// C01 / C08 / C10 by bounded history (complements the INV steps: two-operation effects, plain layout,
// handle layer): a(n1) b(n2) c(rest); release b; d = alloc(m)  -  all sizes symbolic
// =============================================================================================
pub(crate) fn c01_hist<A: Allocator>(fl: Freelist, unify: bool) {
  const CAP: u32 = 96;
  let arena: A = Options::new().with_capacity(CAP).with_unify(unify).with_freelist(fl).with_maximum_retries(1).with_minimum_segment_size(8).alloc::<A>().unwrap();
  let dofs = arena.data_offset() as u32;
  let n1: u32 = kani::any();
  let n2: u32 = kani::any();
  kani::assume(n1 >= 1 && n1 <= 9 && n2 >= 17 && n2 <= 40);
  let (va, vc): (u8, u8) = (kani::any(), kani::any());
  kani::assume(va != 0 && vc != 0);
  let p = arena.raw_mut_ptr();
  let (ea, eb, ec);
  {
    let mut a = arena.alloc_bytes(n1).unwrap();
    let mut b = arena.alloc_bytes(n2).unwrap();
    let rest = arena.remaining() as u32;
    kani::assume(rest >= 1);
    let mut c = arena.alloc_bytes(rest).unwrap();
    ea = (a.offset() as u32, a.capacity() as u32);
    eb = (b.buffer_offset() as u32, b.buffer_capacity() as u32);
    ec = (c.offset() as u32, c.capacity() as u32);
    assert!(ea.0 >= dofs && ea.0 + ea.1 <= eb.0 && eb.0 + eb.1 <= ec.0 && ec.0 + ec.1 == CAP, "C01: fresh allocations are laid out one after the other inside the data area");
    unsafe {
      core::ptr::write_bytes(p.add(ea.0 as usize), va, ea.1 as usize);
      core::ptr::write_bytes(p.add(eb.0 as usize), 0xEE, eb.1 as usize);
      core::ptr::write_bytes(p.add(ec.0 as usize), vc, ec.1 as usize);
      a.detach();
      c.detach();
    }
    core::mem::forget(a);
    core::mem::forget(c);
    drop(b); // not on top: becomes a free segment (or is discarded)
  }
  assert!(arena.allocated() == CAP as usize, "C10: a non-top release leaves the cursor alone");
  let m: u32 = kani::any();
  kani::assume(m >= 1 && m <= 48);
  let g = do_alloc::<A, u8>(&arena, Kind::Bytes, m);
  let wa: u32 = kani::any();
  let wc: u32 = kani::any();
  kani::assume(wa >= ea.0 && wa < ea.0 + ea.1 && wc >= ec.0 && wc < ec.0 + ec.1);
  assert!(unsafe { rd8(p, wa) } == va && unsafe { rd8(p, wc) } == vc, "C01: bytes of live allocations change only through their own handle");
  if g.ok {
    assert!(g.c == m, "C03: capacity is exactly what was requested");
    assert!(disjoint(g.o, g.c, ea.0, ea.1) && disjoint(g.o, g.c, ec.0, ec.1), "C01: a recycled allocation is disjoint from every live allocation");
    assert!(disjoint(g.bo, g.bc, ea.0, ea.1) && disjoint(g.bo, g.bc, ec.0, ec.1), "C01: the extent a recycled handle will release is disjoint from every live allocation");
    assert!(g.o >= eb.0 && g.o + g.c <= eb.0 + eb.1 && g.bo >= eb.0 && g.bo + g.bc <= eb.0 + eb.1, "C01: recycled memory comes from the released range only");
    assert!(!matches!(fl, Freelist::None), "C10: Freelist::None never reuses freed space");
    let z: u32 = kani::any();
    kani::assume(z >= g.o && z < g.o + g.c);
    assert!(unsafe { rd8(p, z) } == 0, "C08: recycled memory is handed out zero-filled");
  } else {
    assert!(g.space_err, "C04: failure is InsufficientSpace");
    // the segment's data size: released size minus alignment padding minus the 8-byte node
    let pad = up(eb.0, 8) - eb.0;
    if !matches!(fl, Freelist::None) && eb.1 > pad + 8 && eb.1 - pad - 8 >= 8 {
      assert!(m > eb.1 - pad - 8, "C10: a request that fits the only free segment is served from it");
    }
  }
  kani::cover!(g.ok && eb.0 % 8 != 0, "served from a segment made of an unaligned release");
  kani::cover!(!g.ok && !matches!(fl, Freelist::None), "refused with a segment on the list");
  core::mem::forget(arena);
}
macro_rules! c01h {
  ($name:ident, $arena:ty, $fl:ident, $unify:expr) => {
    #[kani::proof]
    #[kani::unwind(4)]
    fn $name() {
      c01_hist::<$arena>(Freelist::$fl, $unify);
    }
  };
}
// @h props=C01,C08,C10,C03 quick=C01,C10 timeout=1800 bounds=CAP=96,plain-layout,history=a(1..9)b(17..40)c(rest)-drop(b)-alloc(1..48)
c01h!(c01_hist_unsync_opt_plain, unsync::Arena, Optimistic, false);
// @h props=C01,C08,C10,C03 quick=C01,C08,C10 timeout=1800 bounds=CAP=96,unify,history=a(1..9)b(17..40)c(rest)-drop(b)-alloc(1..48),retries=1
c01h!(c01_hist_sync_pess_unify, sync::Arena, Pessimistic, true);
// @h props=C01,C08,C10,C03 tier=thorough timeout=1800 bounds=CAP=96,plain-layout,history=a(1..9)b(17..40)c(rest)-drop(b)-alloc(1..48),retries=1
c01h!(c01_hist_sync_opt_plain, sync::Arena, Optimistic, false);
// @h props=C01,C08,C10,C03 tier=thorough timeout=1800 bounds=CAP=96,unify,history=a(1..9)b(17..40)c(rest)-drop(b)-alloc(1..48)
c01h!(c01_hist_unsync_pess_unify, unsync::Arena, Pessimistic, true);
// @h props=C01,C10 tier=thorough timeout=1200 bounds=CAP=96,unify,list=None optcover=served_from_a_segment_made_of_an_unaligned_release|refused_with_a_segment_on_the_list
c01h!(c01_hist_sync_none_unify, sync::Arena, None, true);

// =============================================================================================
// C16: what a freshly constructed arena looks like, for symbolic reserved / layout / options
// =============================================================================================
pub(crate) fn c16_fresh<A: Allocator>(fixed_unify: Option<bool>, rmax: u32) {
  c16_fresh_r::<A>(fixed_unify, rmax, None)
}
pub(crate) fn c16_fresh_r<A: Allocator>(fixed_unify: Option<bool>, rmax: u32, fixed_reserved: Option<u32>) {
  const CAP: u32 = 112;
  let reserved: u32 = match fixed_reserved {
    Some(r) => r,
    None => kani::any(),
  };
  kani::assume(reserved <= rmax);
  let unify: bool = match fixed_unify {
    Some(u) => u,
    None => kani::any(),
  };
  let magic: u16 = kani::any();
  let minseg: u32 = kani::any();
  let flb: u8 = kani::any();
  kani::assume(flb <= 2);
  let fl = match flb {
    0 => Freelist::None,
    1 => Freelist::Optimistic,
    _ => Freelist::Pessimistic,
  };
  let opts = Options::new()
    .with_capacity(CAP)
    .with_unify(unify)
    .with_reserved(reserved)
    .with_magic_version(magic)
    .with_minimum_segment_size(minseg)
    .with_freelist(fl)
    .with_maximum_retries(1);
  let arena: A = opts.alloc::<A>().unwrap();
  let want_dofs = if unify { ((reserved + 7) & !7) + 8 + 24 } else { reserved + 1 };
  assert!(arena.data_offset() == want_dofs as usize, "C16: data_offset() is where the layout contract puts it");
  assert!(arena.data_offset() == if unify { opts.data_offset_unify::<A>() } else { opts.data_offset::<A>() }, "C16: data_offset() equals Options::data_offset / data_offset_unify");
  assert!(arena.allocated() == arena.data_offset(), "C16: a fresh arena has handed out nothing");
  assert!(arena.capacity() == CAP as usize && arena.remaining() == CAP as usize - arena.allocated(), "C16: capacity() and remaining()");
  assert!(arena.reserved_bytes() == reserved as usize && arena.reserved_slice().len() == reserved as usize, "C16: reserved_slice() has exactly the configured length");
  assert!(arena.unify() == unify && !arena.read_only(), "C16: unify() / read_only() report the mode");
  assert!(arena.is_inmemory() && !arena.is_ondisk(), "C16: a Vec-backed arena is in memory, not on disk");
  assert!(arena.magic_version() == magic && arena.version() == 0, "C16: magic_version() / version()");
  assert!(arena.minimum_segment_size() == minseg && arena.discarded() == 0 && arena.refs() == 1, "C16: minimum_segment_size(), discarded(), refs() of a fresh arena");
  assert!(arena.page_size() == 4096, "C16: page_size()");
  // bytes of the prefix: reserved bytes zero, then (unified layout) the 8 identification bytes exactly at `reserved`
  let p = arena.raw_ptr();
  let x: u32 = kani::any();
  kani::assume(x < CAP);
  let b = unsafe { rd8(p, x) };
  if unify {
    let hdr = ((reserved + 7) & !7) + 8;
    if x >= reserved && x < reserved + 8 {
      let want = match x - reserved {
        0 => 0u8,
        1 => flb,
        2 => b'a',
        3 => b'l',
        4 => magic.to_le_bytes()[0],
        5 => magic.to_le_bytes()[1],
        _ => 0,
      };
      assert!(b == want, "C16: the identification bytes (freelist kind, \"al\", magic version, format version) start right after the reserved prefix");
    } else if x < hdr || x >= hdr + 24 {
      assert!(b == 0, "C16: every other byte of a fresh arena is zero");
    }
    assert!(unsafe { rd64(p, hdr) } == u64::MAX && unsafe { rd32(p, hdr + 8) } == hdr + 24 && unsafe { rd32(p, hdr + 12) } == minseg && unsafe { rd32(p, hdr + 16) } == 0,
      "C16: the header sits at the first 8-aligned offset after the identification bytes");
  } else {
    assert!(b == 0, "C16: every byte of a fresh plain-layout arena is zero");
  }
  // the first allocation starts at the first suitably aligned offset at or after data_offset
  let first = do_alloc::<A, u32>(&arena, Kind::Typed, 0);
  assert!(first.ok && first.o == up(want_dofs, 4) && first.bo == want_dofs, "C16: the first allocation starts at the first aligned offset at or after data_offset");
  kani::cover!(fixed_unify == Some(false) || fixed_reserved.is_some() || (unify && reserved % 8 == 3), "unified, reserved not a multiple of 8");
  kani::cover!(fixed_unify == Some(true) || fixed_reserved.is_some() || (!unify && reserved == 0), "plain, nothing reserved");
  core::mem::forget(arena);
}
// @h props=C16 tier=quick timeout=1200 bounds=CAP=112,reserved<=24:symbolic,unify:symbolic,freelist:symbolic,magic:any
#[kani::proof]
#[kani::unwind(10)]
fn c16_fresh_unsync() {
  c16_fresh::<unsync::Arena>(None, 24);
}
// (with a symbolic `reserved` the lock-free flavour's construction does not finish in 40 min: concrete values here)
// @h props=C16 tier=thorough timeout=2400 mem=28 bounds=CAP=112,reserved=5,unify,freelist:symbolic,magic:any,retries=1
#[kani::proof]
#[kani::unwind(10)]
fn c16_fresh_sync_unify_r5() {
  c16_fresh_r::<sync::Arena>(Some(true), 24, Some(5));
}
// @h props=C16 tier=thorough timeout=2400 mem=28 bounds=CAP=112,reserved=3,plain,freelist:symbolic,magic:any,retries=1
#[kani::proof]
#[kani::unwind(10)]
fn c16_fresh_sync_plain_r3() {
  c16_fresh_r::<sync::Arena>(Some(false), 24, Some(3));
}

// construction fails exactly when the capacity cannot hold the prefix
// @h props=C16 tier=quick timeout=600 bounds=capacity<=48:concrete-list,reserved<=24:symbolic,unify:symbolic
#[kani::proof]
#[kani::unwind(10)]
fn c16_small_capacity() {
  let reserved: u32 = kani::any();
  kani::assume(reserved <= 24);
  let unify: bool = kani::any();
  let which: u8 = kani::any();
  kani::assume(which < 4);
  let cap: u32 = match which {
    0 => 1,
    1 => 24,
    2 => 32,
    _ => 48,
  };
  let prefix = if unify { ((reserved + 7) & !7) + 8 + 24 } else { reserved + 1 };
  match Options::new().with_capacity(cap).with_unify(unify).with_reserved(reserved).alloc::<unsync::Arena>() {
    Ok(a) => {
      assert!(prefix <= cap, "C16: construction succeeds only if the capacity holds the prefix");
      core::mem::forget(a);
    }
    Err(e) => {
      assert!(prefix > cap, "C16: construction fails only if the capacity cannot hold the prefix");
      assert!(matches!(e, Error::InsufficientSpace { .. }), "C16: the error is InsufficientSpace");
      core::mem::forget(e);
    }
  }
  kani::cover!(prefix == cap, "prefix exactly fills the capacity");
  kani::cover!(prefix == cap + 1, "one byte short");
}

// C13: an owned *aligned* byte handle (buffer extent != accessible range) releases exactly its buffer extent
pub(crate) fn c13_owned_aligned<A: Allocator>(fl: Freelist, owned: bool) {
  const CAP: usize = 96;
  let l = lay(0, CAP as u32);
  let a: A = mk::<A>(fl, 1, &l, 8);
  let b: A = mk::<A>(fl, 1, &l, 8);
  let n1: u32 = kani::any();
  let n2: u32 = kani::any();
  let top: bool = kani::any();
  kani::assume(n1 >= 1 && n1 <= 5 && n2 <= 8);
  {
    let mut x = a.alloc_bytes(n1).unwrap();
    unsafe { x.detach() };
    core::mem::forget(x);
    let mut y = b.alloc_bytes(n1).unwrap();
    unsafe { y.detach() };
    core::mem::forget(y);
  }
  let refs0 = a.refs();
  let eb;
  {
    let mut ha = a.alloc_aligned_bytes::<u64>(n2).unwrap();
    let mut hb = b.alloc_aligned_bytes::<u64>(n2).unwrap();
    eb = (hb.buffer_offset() as u32, hb.buffer_capacity() as u32);
    assert!(ha.buffer_offset() == hb.buffer_offset() && ha.buffer_capacity() == hb.buffer_capacity(), "ENC: twin arenas agree");
    assert!(ha.offset() % 8 == 0 && ha.capacity() >= 8 + n2 as usize, "C03: aligned bytes handle");
    unsafe { hb.detach() };
    core::mem::forget(hb);
    if !top {
      let mut x = a.alloc_bytes(5).unwrap();
      unsafe { x.detach() };
      core::mem::forget(x);
      let mut y = b.alloc_bytes(5).unwrap();
      unsafe { y.detach() };
      core::mem::forget(y);
    }
    if owned {
      let o = ha.to_owned();
      drop(ha);
      assert!(a.refs() == refs0 + 1, "C13: an owned handle holds one arena reference");
      drop(o);
      assert!(a.refs() == refs0, "C13: dropping the owned handle gives its arena reference back");
    } else {
      drop(ha);
    }
  }
  unsafe { b.dealloc(eb.0, eb.1) };
  assert!(a.allocated() == b.allocated(), "C13: an aligned handle releases exactly its buffer extent, padding included (cursor)");
  assert!(a.discarded() == b.discarded(), "C13: an aligned handle releases exactly its buffer extent, padding included (discarded)");
  let x: u32 = kani::any();
  kani::assume(x < CAP as u32);
  kani::assume(x < l.hdr + 20 || x >= l.hdr + 24);
  assert!(unsafe { rd8(a.raw_ptr(), x) == rd8(b.raw_ptr(), x) }, "C13: an aligned handle releases exactly its buffer extent, padding included (free list and memory image)");
  kani::cover!(eb.0 % 8 != 0 && top, "padded handle released from the top");
  kani::cover!(eb.0 % 8 != 0 && !top, "padded handle released from the middle");
  core::mem::forget(a);
  core::mem::forget(b);
}
// @h props=C13 tier=quick timeout=1800 bounds=CAP=96,T=u64,n1<=5,n2<=8,owned
#[kani::proof]
#[kani::unwind(4)]
fn c13_owned_aligned_unsync_opt() {
  c13_owned_aligned::<unsync::Arena>(Freelist::Optimistic, true);
}
// @h props=C13 tier=thorough timeout=1800 bounds=CAP=96,T=u64,n1<=5,n2<=8,borrowed,retries=1
#[kani::proof]
#[kani::unwind(4)]
fn c13_borrowed_aligned_sync_pess() {
  c13_owned_aligned::<sync::Arena>(Freelist::Pessimistic, false);
}

// C18: truncate on an arena that has handed out nothing yet (allocated == data_offset): header, identification bytes
// and the reserved prefix live below data_offset and must survive
pub(crate) fn c18_truncate_fresh(unify: bool, reserved: u32, n: usize, follow: bool) {
  let mut arena: unsync::Arena = Options::new().with_capacity(64).with_unify(unify).with_reserved(reserved).with_freelist(Freelist::Optimistic).with_minimum_segment_size(12).alloc::<unsync::Arena>().unwrap();
  let dofs = arena.data_offset();
  let v: u8 = kani::any();
  if reserved > 0 {
    unsafe { arena.reserved_slice_mut()[0] = v };
  }
  let x: u32 = kani::any();
  kani::assume((x as usize) < dofs);
  let before = unsafe { rd8(arena.raw_ptr(), x) };
  arena.truncate(n);
  let newcap = if n > dofs { n } else { dofs };
  assert!(arena.capacity() == newcap, "C18: capacity() == max(n, allocated())");
  assert!(arena.allocated() == dofs && arena.data_offset() == dofs, "C18: truncate keeps allocated() on an arena that has handed out nothing");
  assert!(arena.minimum_segment_size() == 12 && arena.discarded() == 0, "C18: truncate keeps the header fields");
  assert!(unsafe { rd8(arena.raw_ptr(), x) } == before, "C18: every byte below allocated() unchanged (reserved prefix, identification bytes, header)");
  if reserved > 0 {
    assert!(arena.reserved_slice()[0] == v, "C18: the reserved prefix survives truncate");
  }
  if !follow {
    kani::cover!(true, "state-only variant: truncate returned");
    core::mem::forget(arena);
    return;
  }
  let m: u32 = kani::any();
  kani::assume(m >= 1 && m <= 40);
  let g = do_alloc::<unsync::Arena, u8>(&arena, Kind::Bytes, m);
  assert!(g.ok == (dofs + m as usize <= newcap), "C18: afterwards allocations succeed exactly when they fit the new capacity");
  if g.ok {
    assert!(g.bo as usize == dofs, "C18: the first allocation after truncate starts at data_offset");
  }
  kani::cover!(g.ok, "allocation after truncate");
  core::mem::forget(arena);
}
// @h props=C18 tier=quick timeout=1200 mem=28 bounds=CAP=64,unify,reserved=5,nothing-allocated,n=96,state-only optcover=allocation_after_truncate
#[kani::proof]
#[kani::unwind(10)]
fn c18_truncate_fresh_unify_r5() {
  c18_truncate_fresh(true, 5, 96, false);
}
// @h props=C18 tier=quick timeout=1200 mem=28 bounds=CAP=64,plain,reserved=3,nothing-allocated,n=40,state-only optcover=allocation_after_truncate
#[kani::proof]
#[kani::unwind(10)]
fn c18_truncate_fresh_plain_r3() {
  c18_truncate_fresh(false, 3, 40, false);
}

// =============================================================================================
// C05 by bounded history: a(n1) b(n2) c(n3); release b; [close/reopen]; d = alloc(m); [close/reopen]; e = alloc(k)
// The reopen is the transformation Engine M established for the real closure (R1): zero [stored cursor, capacity).
// The tail above the cursor is filled with arbitrary bytes first (a file whose cursor was rewound, or a crashed one).
// =============================================================================================
pub(crate) fn c05_reopen_transform<A: Allocator>(arena: &A) {
  let allocated = arena.allocated();
  let len = arena.capacity();
  if len > allocated {
    unsafe { core::ptr::write_bytes(arena.raw_mut_ptr().add(allocated), 0, len - allocated) };
  }
}
pub(crate) fn c05_hist<A: Allocator>(fl: Freelist) {
  const CAP: u32 = 128;
  let arena: A = Options::new().with_capacity(CAP).with_unify(true).with_freelist(fl).with_maximum_retries(1).with_minimum_segment_size(8).alloc::<A>().unwrap();
  let dofs = arena.data_offset() as u32;
  let (n1, n2, n3): (u32, u32, u32) = (kani::any(), kani::any(), kani::any());
  // n3 = the tail left above the cursor (0..=12): small, so that requests larger than it must come from the freed range
  kani::assume(n1 >= 1 && n1 <= 9 && n2 >= 17 && n2 <= 32 && n3 <= 12);
  let (va, vc, vd): (u8, u8, u8) = (kani::any(), kani::any(), kani::any());
  kani::assume(va != 0 && vc != 0 && vd != 0);
  let p = arena.raw_mut_ptr();
  let (ea, eb, ec);
  {
    let mut a = arena.alloc_bytes(n1).unwrap();
    let b = arena.alloc_bytes(n2).unwrap();
    let rest = arena.remaining() as u32;
    kani::assume(rest > n3);
    let mut c = arena.alloc_bytes(rest - n3).unwrap();
    ea = (a.offset() as u32, a.capacity() as u32);
    eb = (b.buffer_offset() as u32, b.buffer_capacity() as u32);
    ec = (c.offset() as u32, c.capacity() as u32);
    unsafe {
      core::ptr::write_bytes(p.add(ea.0 as usize), va, ea.1 as usize);
      core::ptr::write_bytes(p.add(eb.0 as usize), 0xEE, eb.1 as usize);
      core::ptr::write_bytes(p.add(ec.0 as usize), vc, ec.1 as usize);
      a.detach();
      c.detach();
    }
    core::mem::forget(a);
    core::mem::forget(c);
    drop(b);
  }
  let cur0 = arena.allocated();
  assert!(cur0 as u32 + n3 == CAP, "ENC: tail above the cursor");
  // arbitrary bytes above the cursor
  let junk: u8 = kani::any();
  unsafe { core::ptr::write_bytes(p.add(cur0), junk, CAP as usize - cur0) };
  let (disc0, min0, rem0) = (arena.discarded(), arena.minimum_segment_size(), arena.remaining());
  // ---- first close / reopen ----
  c05_reopen_transform(&arena);
  assert!(arena.allocated() == cur0 && arena.discarded() == disc0 && arena.minimum_segment_size() == min0 && arena.remaining() == rem0 && arena.data_offset() as u32 == dofs,
    "C05: allocated/discarded/minimum segment size/remaining/data_offset survive the reopen");
  let (wa, wc): (u32, u32) = (kani::any(), kani::any());
  kani::assume(wa >= ea.0 && wa < ea.0 + ea.1 && wc >= ec.0 && wc < ec.0 + ec.1);
  assert!(unsafe { rd8(p, wa) } == va && unsafe { rd8(p, wc) } == vc, "C05: handed-out bytes unchanged by the reopen");
  let m: u32 = kani::any();
  kani::assume(m >= 1 && m <= 40);
  let g = do_alloc::<A, u8>(&arena, Kind::Bytes, m);
  if g.ok {
    assert!(disjoint(g.bo, g.bc, ea.0, ea.1) && disjoint(g.bo, g.bc, ec.0, ec.1), "C05: allocation after the reopen avoids ranges live before closing");
    assert!(g.bo >= dofs && g.bo + g.bc <= CAP, "C05: allocation after the reopen lies in the data area");
    let z: u32 = kani::any();
    kani::assume(z >= g.o && z < g.o + g.c);
    assert!(unsafe { rd8(p, z) } == 0, "C08: memory handed out after a reopen is zero-filled");
    unsafe { core::ptr::write_bytes(p.add(g.o as usize), vd, g.c as usize) };
    // a range that had been freed remains reusable: a request that fits the freed segment and not the fresh tail comes from it
    if g.o < cur0 as u32 {
      assert!(!matches!(fl, Freelist::None) && g.o >= eb.0 && g.o + g.c <= eb.0 + eb.1, "C05: recycled memory after the reopen comes from the range freed before closing");
    }
  } else {
    assert!(g.space_err, "C04: failure is InsufficientSpace");
  }
  // ---- second close / reopen ----
  let cur1 = arena.allocated();
  let disc1 = arena.discarded();
  c05_reopen_transform(&arena);
  assert!(arena.allocated() == cur1 && arena.discarded() == disc1 && arena.minimum_segment_size() == min0, "C05: second reopen keeps the state too");
  assert!(unsafe { rd8(p, wa) } == va && unsafe { rd8(p, wc) } == vc, "C05: handed-out bytes unchanged by the second reopen");
  if g.ok {
    let wd: u32 = kani::any();
    kani::assume(wd >= g.o && wd < g.o + g.c);
    assert!(unsafe { rd8(p, wd) } == vd, "C05: bytes handed out between two reopens survive the second one");
  }
  let k: u32 = kani::any();
  kani::assume(k >= 1 && k <= 40);
  let h = do_alloc::<A, u8>(&arena, Kind::Bytes, k);
  if h.ok {
    assert!(disjoint(h.bo, h.bc, ea.0, ea.1) && disjoint(h.bo, h.bc, ec.0, ec.1), "C05: allocation after the second reopen avoids the old live ranges");
    if g.ok {
      assert!(disjoint(h.bo, h.bc, g.bo, g.bc), "C05: allocation after the second reopen avoids the range handed out between the reopens");
    }
  }
  kani::cover!(g.ok && g.o < cur0 as u32, "after the reopen: served from the range freed before closing");
  kani::cover!(g.ok && g.o >= cur0 as u32, "after the reopen: served from the zeroed tail");
  kani::cover!(g.ok && h.ok, "both follow-up allocations succeed");
  core::mem::forget(arena);
}
// @h props=C05,C08 tier=thorough timeout=2400 mem=20 bounds=CAP=128,unify,history=a(1..9)b(17..32)c(rest-tail)tail(0..12)-drop(b)-reopen-alloc(1..40)-reopen-alloc(1..40)
#[kani::proof]
#[kani::unwind(4)]
fn c05_hist_two_cycles_unsync_opt() {
  c05_hist::<unsync::Arena>(Freelist::Optimistic);
}
// @h props=C05,C08 tier=thorough timeout=2400 mem=20 bounds=CAP=128,unify,history=a(1..9)b(17..32)c(rest-tail)tail(0..12)-drop(b)-reopen-alloc(1..40)-reopen-alloc(1..40),retries=1
#[kani::proof]
#[kani::unwind(4)]
fn c05_hist_two_cycles_sync_pess() {
  c05_hist::<sync::Arena>(Freelist::Pessimistic);
}
