//! Overlay module (child of `memory`): helpers that need `Memory`'s private fields.
#![allow(dead_code, unused_imports)]
use super::*;

/// A Vec-backed arena whose `read_only` flag is set: the only difference `map_in` makes to the
/// struct (besides the backend/flag fields) that the allocation code looks at.
pub(crate) fn make_read_only<A: crate::sealed::Sealed>(opts: Options) -> A {
  let mut m = Memory::<A::RefCounter, A::PathRefCounter, A::Header>::alloc(opts).unwrap();
  m.read_only = true;
  m.into()
}

/// `Memory::alloc` with the freshly built struct exposed for field inspection.
pub(crate) fn fresh_fields<A: crate::sealed::Sealed>(opts: Options) -> Option<(u32, usize, usize, bool, bool, u16, u16, u8)> {
  match Memory::<A::RefCounter, A::PathRefCounter, A::Header>::alloc(opts) {
    Ok(m) => {
      let r = (m.cap, m.reserved, m.data_offset, m.unify, m.read_only, m.magic_version, m.version, m.max_retries);
      core::mem::forget(m);
      Some(r)
    }
    Err(_) => None,
  }
}

// @h props=C16 tier=quick bounds=reserved:u32<2^31
#[kani::proof]
fn c16_data_offset_formula_fullwidth() {
  let reserved: u32 = kani::any();
  kani::assume(reserved <= (1u32 << 31));
  // Options::data_offset_in and memory::header_meta must be the same function of `reserved`
  let (hp_s, pre_s) = header_meta::<<crate::sync::Arena as crate::sealed::Sealed>::Header>(reserved as usize, true);
  let (hp_u, pre_u) = header_meta::<<crate::unsync::Arena as crate::sealed::Sealed>::Header>(reserved as usize, true);
  let o = Options::new().with_reserved(reserved);
  assert!(o.data_offset_unify::<crate::sync::Arena>() == pre_s, "C16: data_offset_unify(sync) == header_meta prefix");
  assert!(o.data_offset_unify::<crate::unsync::Arena>() == pre_u, "C16: data_offset_unify(unsync) == header_meta prefix");
  assert!(pre_s == pre_u && hp_s == hp_u, "C16: both flavours share one layout");
  assert!(hp_s % 8 == 0 && hp_s >= reserved as usize + 8 && hp_s < reserved as usize + 16, "C16: header is the first 8-aligned slot after reserved+8 sanity bytes");
  assert!(pre_s == hp_s + 24, "C16: data starts right after the 24-byte header");
  let (hp_p, pre_p) = header_meta::<<crate::sync::Arena as crate::sealed::Sealed>::Header>(reserved as usize, false);
  assert!(o.data_offset::<crate::sync::Arena>() == pre_p && pre_p == reserved as usize + 1 && hp_p == pre_p, "C16: plain layout data offset = reserved + 1");
  kani::cover!(reserved % 8 == 3);
}

// @h props=C16,C04 tier=quick bounds=reserved:u32<2^31,capacity:any-usize
#[kani::proof]
fn c16_check_capacity_iff() {
  let reserved: u32 = kani::any();
  kani::assume(reserved <= (1u32 << 31));
  let unify: bool = kani::any();
  let cap: usize = kani::any();
  kani::assume(cap <= u32::MAX as usize);
  type H = <crate::sync::Arena as crate::sealed::Sealed>::Header;
  let (hp, pre) = header_meta::<H>(reserved as usize, unify);
  match check_capacity::<H>(reserved as usize, unify, cap) {
    Ok(o) => {
      assert!(pre <= cap, "C16: construction succeeds only if the prefix fits");
      assert!(o == hp, "C16: header offset");
    }
    Err(e) => {
      assert!(pre > cap, "C16: construction fails only if the prefix does not fit");
      assert!(matches!(e, Error::InsufficientSpace { .. }), "C16: error kind InsufficientSpace");
    }
  }
  kani::cover!(pre == cap);
  kani::cover!(pre == cap + 1);
}
