//! Overlay module (child of `bytes`): C14 — buffer writers/readers. Being a child of `bytes`
//! it can set the private `len` of a handle directly, so every fill level is one symbolic value.
#![allow(dead_code, unused_imports, unused_variables, clippy::all)]
use super::*;
use crate::{sync, unsync, Allocator, Buffer, Freelist, Options};

const ACAP: usize = 48;
const BCAP: usize = 16;

/// A 48-byte plain-layout arena (data_offset = 1) holding three live buffers
/// a = [1,8), b = [8,24), c = [24,32); `b` is returned, with arbitrary bytes everywhere and an
/// arbitrary fill level. There is foreign live memory on both sides of `b`.
fn setup_ref<A: Allocator>(arena: &A) -> BytesRefMut<'_, A> {
  let mut a = arena.alloc_bytes(7).unwrap();
  unsafe { a.detach() };
  core::mem::forget(a);
  let mut b = arena.alloc_bytes(BCAP as u32).unwrap();
  unsafe { b.detach() };
  let mut c = arena.alloc_bytes(8).unwrap();
  unsafe { c.detach() };
  core::mem::forget(c);
  assert!(b.allocated.ptr_offset == 8 && b.allocated.ptr_size == BCAP as u32, "ENC: buffer b at [8,24)");
  let data: [u8; ACAP] = kani::any();
  unsafe { core::ptr::copy_nonoverlapping(data.as_ptr(), arena.raw_mut_ptr(), ACAP) };
  let len: usize = kani::any();
  kani::assume(len <= BCAP);
  b.len = len;
  b
}

fn mk_arena<A: Allocator>() -> A {
  Options::new().with_capacity(ACAP as u32).with_freelist(Freelist::None).alloc::<A>().unwrap()
}

macro_rules! c14_fixed {
  ($name:ident, $arena:ty, $ty:ident, $put:ident, $get:ident, $to:ident) => {
    #[kani::proof]
    #[kani::unwind(18)]
    fn $name() {
      const SIZE: usize = core::mem::size_of::<$ty>();
      let arena: $arena = mk_arena::<$arena>();
      let mut b = setup_ref(&arena);
      let p = arena.raw_ptr();
      let len0 = b.len;
      let v: $ty = kani::any();
      let x: usize = kani::any();
      kani::assume(x < ACAP);
      let before = unsafe { p.add(x).read() };
      match b.$put(v) {
        Ok(()) => {
          assert!(len0 + SIZE <= BCAP, "C14: put succeeds only if the value fits the remaining capacity");
          assert!(b.len == len0 + SIZE, "C14: put advances len past the value");
          let enc = v.$to();
          let j: usize = kani::any();
          kani::assume(j < SIZE);
          assert!(unsafe { p.add(8 + len0 + j).read() } == enc[j], "C14: put stores the value's encoding at [len, len+SIZE)");
          if x < 8 + len0 || x >= 8 + len0 + SIZE {
            assert!(unsafe { p.add(x).read() } == before, "C14: put touches nothing but the bytes of the value");
          }
          match b.$get() {
            Ok(got) => {
              assert!(got == v, "C14: get of the same type and byte order returns the value that was put");
              assert!(b.len == len0, "C14: get restores len");
            }
            Err(_) => assert!(false, "C14: get after a successful put succeeds"),
          }
          kani::cover!(len0 + SIZE == BCAP, "put fills the buffer exactly");
        }
        Err(e) => {
          assert!(len0 + SIZE > BCAP, "C14: put fails only if the value does not fit");
          assert!(b.len == len0, "C14: failed put leaves len unchanged");
          assert!(unsafe { p.add(x).read() } == before, "C14: failed fixed-width put leaves every byte unchanged");
          core::mem::forget(e);
          kani::cover!(len0 < BCAP, "put fails with room for a shorter value");
        }
      }
      core::mem::forget(b);
      core::mem::forget(arena);
    }
  };
}

// one type per width and order in the quick tier
// @h props=C14 tier=quick timeout=600 bounds=buffer=16-of-48,len:0..=16,value:any
c14_fixed!(c14_u16_le_ref_unsync, unsync::Arena, u16, put_u16_le, get_u16_le, to_le_bytes);
// @h props=C14 tier=quick timeout=600 bounds=buffer=16-of-48,len:0..=16,value:any
c14_fixed!(c14_u32_be_ref_sync, sync::Arena, u32, put_u32_be, get_u32_be, to_be_bytes);
// @h props=C14 tier=quick timeout=600 bounds=buffer=16-of-48,len:0..=16,value:any
c14_fixed!(c14_u64_ne_ref_unsync, unsync::Arena, u64, put_u64_ne, get_u64_ne, to_ne_bytes);
// @h props=C14 tier=quick timeout=900 bounds=buffer=16-of-48,len:0..=16,value:any
c14_fixed!(c14_i128_le_ref_unsync, unsync::Arena, i128, put_i128_le, get_i128_le, to_le_bytes);
// @h props=C14 tier=quick timeout=600 bounds=buffer=16-of-48,len:0..=16,value:any
c14_fixed!(c14_isize_be_ref_sync, sync::Arena, isize, put_isize_be, get_isize_be, to_be_bytes);
// thorough: the rest of the type x order matrix
// @h props=C14 tier=thorough timeout=600 bounds=buffer=16-of-48,len:0..=16,value:any
c14_fixed!(c14_u16_be_ref_unsync, unsync::Arena, u16, put_u16_be, get_u16_be, to_be_bytes);
// @h props=C14 tier=thorough timeout=600 bounds=buffer=16-of-48,len:0..=16,value:any
c14_fixed!(c14_u16_ne_ref_sync, sync::Arena, u16, put_u16_ne, get_u16_ne, to_ne_bytes);
// @h props=C14 tier=thorough timeout=600 bounds=buffer=16-of-48,len:0..=16,value:any
c14_fixed!(c14_u32_le_ref_unsync, unsync::Arena, u32, put_u32_le, get_u32_le, to_le_bytes);
// @h props=C14 tier=thorough timeout=600 bounds=buffer=16-of-48,len:0..=16,value:any
c14_fixed!(c14_u32_ne_ref_unsync, unsync::Arena, u32, put_u32_ne, get_u32_ne, to_ne_bytes);
// @h props=C14 tier=thorough timeout=600 bounds=buffer=16-of-48,len:0..=16,value:any
c14_fixed!(c14_u64_be_ref_sync, sync::Arena, u64, put_u64_be, get_u64_be, to_be_bytes);
// @h props=C14 tier=thorough timeout=600 bounds=buffer=16-of-48,len:0..=16,value:any
c14_fixed!(c14_u64_le_ref_unsync, unsync::Arena, u64, put_u64_le, get_u64_le, to_le_bytes);
// @h props=C14 tier=thorough timeout=900 bounds=buffer=16-of-48,len:0..=16,value:any
c14_fixed!(c14_u128_be_ref_unsync, unsync::Arena, u128, put_u128_be, get_u128_be, to_be_bytes);
// @h props=C14 tier=thorough timeout=900 bounds=buffer=16-of-48,len:0..=16,value:any
c14_fixed!(c14_u128_le_ref_sync, sync::Arena, u128, put_u128_le, get_u128_le, to_le_bytes);
// @h props=C14 tier=thorough timeout=900 bounds=buffer=16-of-48,len:0..=16,value:any
c14_fixed!(c14_u128_ne_ref_unsync, unsync::Arena, u128, put_u128_ne, get_u128_ne, to_ne_bytes);
// @h props=C14 tier=thorough timeout=600 bounds=buffer=16-of-48,len:0..=16,value:any
c14_fixed!(c14_usize_be_ref_unsync, unsync::Arena, usize, put_usize_be, get_usize_be, to_be_bytes);
// @h props=C14 tier=thorough timeout=600 bounds=buffer=16-of-48,len:0..=16,value:any
c14_fixed!(c14_usize_le_ref_sync, sync::Arena, usize, put_usize_le, get_usize_le, to_le_bytes);
// @h props=C14 tier=thorough timeout=600 bounds=buffer=16-of-48,len:0..=16,value:any
c14_fixed!(c14_usize_ne_ref_unsync, unsync::Arena, usize, put_usize_ne, get_usize_ne, to_ne_bytes);
// @h props=C14 tier=thorough timeout=600 bounds=buffer=16-of-48,len:0..=16,value:any
c14_fixed!(c14_i16_be_ref_unsync, unsync::Arena, i16, put_i16_be, get_i16_be, to_be_bytes);
// @h props=C14 tier=thorough timeout=600 bounds=buffer=16-of-48,len:0..=16,value:any
c14_fixed!(c14_i16_le_ref_sync, sync::Arena, i16, put_i16_le, get_i16_le, to_le_bytes);
// @h props=C14 tier=thorough timeout=600 bounds=buffer=16-of-48,len:0..=16,value:any
c14_fixed!(c14_i16_ne_ref_unsync, unsync::Arena, i16, put_i16_ne, get_i16_ne, to_ne_bytes);
// @h props=C14 tier=thorough timeout=600 bounds=buffer=16-of-48,len:0..=16,value:any
c14_fixed!(c14_i32_be_ref_unsync, unsync::Arena, i32, put_i32_be, get_i32_be, to_be_bytes);
// @h props=C14 tier=thorough timeout=600 bounds=buffer=16-of-48,len:0..=16,value:any
c14_fixed!(c14_i32_le_ref_unsync, unsync::Arena, i32, put_i32_le, get_i32_le, to_le_bytes);
// @h props=C14 tier=thorough timeout=600 bounds=buffer=16-of-48,len:0..=16,value:any
c14_fixed!(c14_i32_ne_ref_sync, sync::Arena, i32, put_i32_ne, get_i32_ne, to_ne_bytes);
// @h props=C14 tier=thorough timeout=600 bounds=buffer=16-of-48,len:0..=16,value:any
c14_fixed!(c14_i64_be_ref_unsync, unsync::Arena, i64, put_i64_be, get_i64_be, to_be_bytes);
// @h props=C14 tier=thorough timeout=600 bounds=buffer=16-of-48,len:0..=16,value:any
c14_fixed!(c14_i64_le_ref_sync, sync::Arena, i64, put_i64_le, get_i64_le, to_le_bytes);
// @h props=C14 tier=thorough timeout=600 bounds=buffer=16-of-48,len:0..=16,value:any
c14_fixed!(c14_i64_ne_ref_unsync, unsync::Arena, i64, put_i64_ne, get_i64_ne, to_ne_bytes);
// @h props=C14 tier=thorough timeout=900 bounds=buffer=16-of-48,len:0..=16,value:any
c14_fixed!(c14_i128_be_ref_sync, sync::Arena, i128, put_i128_be, get_i128_be, to_be_bytes);
// @h props=C14 tier=thorough timeout=900 bounds=buffer=16-of-48,len:0..=16,value:any
c14_fixed!(c14_i128_ne_ref_unsync, unsync::Arena, i128, put_i128_ne, get_i128_ne, to_ne_bytes);
// @h props=C14 tier=thorough timeout=600 bounds=buffer=16-of-48,len:0..=16,value:any
c14_fixed!(c14_isize_le_ref_unsync, unsync::Arena, isize, put_isize_le, get_isize_le, to_le_bytes);
// @h props=C14 tier=thorough timeout=600 bounds=buffer=16-of-48,len:0..=16,value:any
c14_fixed!(c14_isize_ne_ref_unsync, unsync::Arena, isize, put_isize_ne, get_isize_ne, to_ne_bytes);

macro_rules! c14_byte {
  ($name:ident, $arena:ty, $ty:ident, $put:ident, $get:ident) => {
    #[kani::proof]
    #[kani::unwind(4)]
    fn $name() {
      let arena: $arena = mk_arena::<$arena>();
      let mut b = setup_ref(&arena);
      let p = arena.raw_ptr();
      let len0 = b.len;
      let v: $ty = kani::any();
      let x: usize = kani::any();
      kani::assume(x < ACAP);
      let before = unsafe { p.add(x).read() };
      match b.$put(v) {
        Ok(()) => {
          assert!(len0 + 1 <= BCAP && b.len == len0 + 1, "C14: put advances len past the value");
          assert!(unsafe { p.add(8 + len0).read() } == v as u8, "C14: put stores the value at [len, len+1)");
          if x != 8 + len0 {
            assert!(unsafe { p.add(x).read() } == before, "C14: put touches nothing but the byte of the value");
          }
          assert!(matches!(b.$get(), Ok(g) if g == v) && b.len == len0, "C14: get returns the value and restores len");
        }
        Err(e) => {
          assert!(len0 == BCAP && b.len == len0, "C14: put fails only on a full buffer, len unchanged");
          assert!(unsafe { p.add(x).read() } == before, "C14: failed fixed-width put leaves every byte unchanged");
          core::mem::forget(e);
        }
      }
      core::mem::forget(b);
      core::mem::forget(arena);
    }
  };
}
// @h props=C14 tier=quick timeout=300 bounds=buffer=16-of-48,len:0..=16,value:any
c14_byte!(c14_u8_ref_unsync, unsync::Arena, u8, put_u8, get_u8);
// @h props=C14 tier=thorough timeout=300 bounds=buffer=16-of-48,len:0..=16,value:any
c14_byte!(c14_i8_ref_sync, sync::Arena, i8, put_i8, get_i8);

// ---- LEB128: put on an empty buffer, then the matching get ------------------------------------
macro_rules! c14_varint {
  ($name:ident, $arena:ty, $ty:ident, $put:ident, $get:ident, $unwind:expr) => {
    #[kani::proof]
    #[kani::unwind($unwind)]
    fn $name() {
      let arena: $arena = mk_arena::<$arena>();
      let mut b = setup_ref(&arena);
      b.len = 0;
      // shrink the buffer to an arbitrary capacity so that "does not fit" is reachable for every type
      let cap: u32 = kani::any();
      kani::assume(cap >= 1 && cap <= BCAP as u32);
      b.allocated.ptr_size = cap;
      let p = arena.raw_ptr();
      let v: $ty = kani::any();
      let x: usize = kani::any();
      kani::assume(x < ACAP);
      let before = unsafe { p.add(x).read() };
      match b.$put(v) {
        Ok(n) => {
          assert!(n >= 1 && n <= cap as usize && b.len == n, "C14: varint put advances len by the encoded length, inside the buffer");
          if x < 8 || x >= 8 + n {
            assert!(unsafe { p.add(x).read() } == before, "C14: varint put touches nothing outside the encoded bytes");
          }
          match b.$get() {
            Ok((m, got)) => assert!(m == n && got == v, "C14: matching varint get returns the encoded length and the value"),
            Err(_) => assert!(false, "C14: varint get after a successful put succeeds"),
          }
          kani::cover!(n == cap as usize && n > 1, "varint fills the buffer exactly");
        }
        Err(e) => {
          assert!(b.len == 0, "C14: failed varint put leaves len unchanged");
          if x < 8 || x >= 8 + cap as usize {
            assert!(unsafe { p.add(x).read() } == before, "C14: failed varint put touches nothing outside the buffer");
          }
          core::mem::forget(e);
          kani::cover!(cap > 1, "varint does not fit");
        }
      }
      core::mem::forget(b);
      core::mem::forget(arena);
    }
  };
}
// @h props=C14 tier=quick timeout=900 bounds=buffer:1..=16-of-48,value:any
c14_varint!(c14_varint_u32_ref_unsync, unsync::Arena, u32, put_u32_varint, get_u32_varint, 8);
// @h props=C14 tier=quick timeout=1200 bounds=buffer:1..=16-of-48,value:any
c14_varint!(c14_varint_i64_ref_sync, sync::Arena, i64, put_i64_varint, get_i64_varint, 13);
// @h props=C14 tier=thorough timeout=900 bounds=buffer:1..=16-of-48,value:any
c14_varint!(c14_varint_u16_ref_sync, sync::Arena, u16, put_u16_varint, get_u16_varint, 6);
// @h props=C14 tier=thorough timeout=900 bounds=buffer:1..=16-of-48,value:any
c14_varint!(c14_varint_i16_ref_unsync, unsync::Arena, i16, put_i16_varint, get_i16_varint, 6);
// @h props=C14 tier=thorough timeout=900 bounds=buffer:1..=16-of-48,value:any
c14_varint!(c14_varint_i32_ref_unsync, unsync::Arena, i32, put_i32_varint, get_i32_varint, 8);
// @h props=C14 tier=thorough timeout=1200 bounds=buffer:1..=16-of-48,value:any
c14_varint!(c14_varint_u64_ref_unsync, unsync::Arena, u64, put_u64_varint, get_u64_varint, 13);

// varint put at an arbitrary fill level (the general put contract; the round trip above is stated for an empty buffer)
macro_rules! c14_varint_filled {
  ($name:ident, $arena:ty, $ty:ident, $put:ident, $unwind:expr) => {
    #[kani::proof]
    #[kani::unwind($unwind)]
    fn $name() {
      let arena: $arena = mk_arena::<$arena>();
      let mut b = setup_ref(&arena);
      let cap: u32 = kani::any();
      kani::assume(cap >= 1 && cap <= BCAP as u32);
      b.allocated.ptr_size = cap;
      let len0: usize = kani::any();
      kani::assume(len0 <= cap as usize);
      b.len = len0;
      let p = arena.raw_ptr();
      let v: $ty = kani::any();
      let x: usize = kani::any();
      kani::assume(x < ACAP);
      let before = unsafe { p.add(x).read() };
      match b.$put(v) {
        Ok(n) => {
          assert!(n >= 1 && len0 + n <= cap as usize && b.len == len0 + n, "C14: varint put stores the value inside the buffer and advances len past it");
          if x < 8 + len0 || x >= 8 + len0 + n {
            assert!(unsafe { p.add(x).read() } == before, "C14: varint put touches nothing outside the encoded bytes");
          }
          kani::cover!(len0 > 0 && len0 + n == cap as usize, "varint fills a partly filled buffer exactly");
        }
        Err(e) => {
          assert!(b.len == len0, "C14: failed varint put leaves len unchanged");
          if x < 8 + len0 || x >= 8 + cap as usize {
            assert!(unsafe { p.add(x).read() } == before, "C14: failed varint put touches nothing outside the buffer");
          }
          core::mem::forget(e);
          kani::cover!(len0 > 0 && len0 < cap as usize, "varint does not fit the remaining space");
        }
      }
      core::mem::forget(b);
      core::mem::forget(arena);
    }
  };
}
// @h props=C14 tier=quick timeout=1200 bounds=buffer:1..=16-of-48,len:0..=cap,value:any
c14_varint_filled!(c14_varint_filled_u32_ref_unsync, unsync::Arena, u32, put_u32_varint, 8);
// @h props=C14 tier=thorough timeout=1500 bounds=buffer:1..=16-of-48,len:0..=cap,value:any
c14_varint_filled!(c14_varint_filled_i64_ref_sync, sync::Arena, i64, put_i64_varint, 13);
// @h props=C14 tier=thorough timeout=1500 bounds=buffer:1..=16-of-48,len:0..=cap,value:any
c14_varint_filled!(c14_varint_filled_u16_ref_unsync, unsync::Arena, u16, put_u16_varint, 6);

// ---- put_slice ---------------------------------------------------------------------------------
// @h props=C14 tier=quick timeout=900 bounds=buffer=16-of-48,len:0..=16,slice:0..=24
#[kani::proof]
#[kani::unwind(26)]
fn c14_put_slice_ref_unsync() {
  let arena: unsync::Arena = mk_arena();
  let mut b = setup_ref(&arena);
  let p = arena.raw_ptr();
  let len0 = b.len;
  let src: [u8; 24] = kani::any();
  let n: usize = kani::any();
  kani::assume(n <= 24);
  let x: usize = kani::any();
  kani::assume(x < ACAP);
  let before = unsafe { p.add(x).read() };
  match b.put_slice(&src[..n]) {
    Ok(()) => {
      assert!(len0 + n <= BCAP && b.len == len0 + n, "C14: put_slice advances len past the slice");
      if x >= 8 + len0 && x < 8 + len0 + n {
        assert!(unsafe { p.add(x).read() } == src[x - 8 - len0], "C14: put_slice stores the slice at [len, len+n)");
      } else {
        assert!(unsafe { p.add(x).read() } == before, "C14: put_slice touches nothing but the slice's bytes");
      }
      kani::cover!(n > 0 && len0 + n == BCAP);
    }
    Err(e) => {
      assert!(len0 + n > BCAP && b.len == len0, "C14: put_slice fails only if the slice does not fit; len unchanged");
      assert!(unsafe { p.add(x).read() } == before, "C14: failed put_slice leaves every byte unchanged");
      core::mem::forget(e);
      kani::cover!(n <= BCAP);
    }
  }
  core::mem::forget(b);
  core::mem::forget(arena);
}

// ---- set_len -----------------------------------------------------------------------------------
// @h props=C14 tier=quick timeout=900 bounds=buffer=16-of-48,len:0..=16,newlen:0..=16
#[kani::proof]
#[kani::unwind(18)]
fn c14_set_len_ref_sync() {
  let arena: sync::Arena = mk_arena();
  let mut b = setup_ref(&arena);
  let p = arena.raw_ptr();
  let len0 = b.len;
  let n: usize = kani::any();
  kani::assume(n <= BCAP);
  let x: usize = kani::any();
  kani::assume(x < ACAP);
  let before = unsafe { p.add(x).read() };
  b.set_len(n);
  assert!(b.len == n, "C14: set_len sets len");
  let lo = if n < len0 { n } else { len0 };
  let hi = if n < len0 { len0 } else { n };
  if x >= 8 + lo && x < 8 + hi {
    assert!(unsafe { p.add(x).read() } == 0, "C14: set_len zero-fills the bytes it exposes or hides");
  } else {
    assert!(unsafe { p.add(x).read() } == before, "C14: set_len touches nothing else");
  }
  kani::cover!(n > len0);
  kani::cover!(n < len0);
  core::mem::forget(b);
  core::mem::forget(arena);
}

// ---- align_to / put / put_aligned ---------------------------------------------------------------
/// Handles whose accessible range does not start at the buffer offset: an
/// `alloc_aligned_bytes::<u64>` from an odd cursor, and a buffer recycled from the free list.
fn setup_skewed<A: Allocator>(arena: &A, skew: u32, extra: u32) -> BytesRefMut<'_, A> {
  let mut a = arena.alloc_bytes(skew).unwrap();
  unsafe { a.detach() };
  core::mem::forget(a);
  let mut b = arena.alloc_aligned_bytes::<u64>(extra).unwrap();
  unsafe { b.detach() };
  let mut c = arena.alloc_bytes(8).unwrap();
  unsafe { c.detach() };
  core::mem::forget(c);
  b
}

macro_rules! c14_align {
  ($name:ident, $arena:ty, $ty:ty, $skewed:expr) => {
    #[kani::proof]
    #[kani::unwind(4)]
    fn $name() {
      const SIZE: usize = core::mem::size_of::<$ty>();
      const ALIGN: usize = core::mem::align_of::<$ty>();
      let arena: $arena = Options::new().with_capacity(64).with_freelist(Freelist::None).with_maximum_alignment(16).alloc::<$arena>().unwrap();
      let mut b = if $skewed {
        let skew: u32 = kani::any();
        kani::assume(skew >= 1 && skew <= 9);
        let extra: u32 = kani::any();
        kani::assume(extra <= 9);
        setup_skewed(&arena, skew, extra)
      } else {
        let skew: u32 = kani::any();
        kani::assume(skew <= 9);
        if skew > 0 {
          let mut a = arena.alloc_bytes(skew).unwrap();
          unsafe { a.detach() };
          core::mem::forget(a);
        }
        let n: u32 = kani::any();
        kani::assume(n >= 1 && n <= 20);
        let mut b = arena.alloc_bytes(n).unwrap();
        unsafe { b.detach() };
        let mut c = arena.alloc_bytes(8).unwrap();
        unsafe { c.detach() };
        core::mem::forget(c);
        b
      };
      let off = b.allocated.ptr_offset as usize;
      let cap = b.allocated.ptr_size as usize;
      let len0: usize = kani::any();
      kani::assume(len0 <= cap);
      b.len = len0;
      let p = arena.raw_ptr();
      let x: usize = kani::any();
      kani::assume(x < 64);
      let before = unsafe { p.add(x).read() };
      let which: bool = kani::any();
      if which {
        match b.align_to::<$ty>() {
          Ok(ptr) => {
            if SIZE > 0 {
              let a = ptr.as_ptr() as usize - p as usize;
              assert!((ptr.as_ptr() as usize) % ALIGN == 0, "C14: align_to yields a pointer aligned for T");
              assert!(a >= off + len0 && a <= off + cap, "C14: align_to yields a pointer inside the buffer");
              assert!(b.len == a - off, "C14: align_to advances len to the aligned position");
            }
          }
          Err(e) => {
            assert!(b.len == len0, "C14: failed align_to leaves len unchanged");
            core::mem::forget(e);
          }
        }
        assert!(unsafe { p.add(x).read() } == before, "C14: align_to writes nothing");
      } else {
        let v: $ty = kani::any();
        match unsafe { b.put_aligned::<$ty>(v) } {
          Ok(r) => {
            let rp = r as *mut $ty as usize;
            let a = rp - p as usize;
            assert!(rp % ALIGN == 0, "C14: put_aligned stores at an address aligned for T");
            assert!(a >= off + len0 && a + SIZE <= off + cap, "C14: put_aligned stores the value inside [offset, offset+capacity)");
            assert!(b.len == a - off + SIZE && b.len <= cap, "C14: put_aligned advances len past the value");
            if x < a || x >= a + SIZE {
              assert!(unsafe { p.add(x).read() } == before, "C14: put_aligned touches nothing but the bytes of the value");
            }
            kani::cover!(a > off + len0, "padding was needed");
          }
          Err(e) => {
            assert!(b.len == len0, "C14: failed put_aligned leaves len unchanged");
            assert!(unsafe { p.add(x).read() } == before, "C14: failed put_aligned touches nothing");
            core::mem::forget(e);
            kani::cover!(len0 < cap, "put_aligned fails with bytes to spare");
          }
        }
      }
      core::mem::forget(b);
      core::mem::forget(arena);
    }
  };
}
// @h props=C14 tier=quick timeout=900 bounds=arena=64,plain-buffer-at-any-offset-1..=10,len:any,T=u64
c14_align!(c14_align_u64_plain_unsync, unsync::Arena, u64, false);
// @h props=C14 tier=quick timeout=900 bounds=arena=64,aligned-bytes-handle-with-offset!=buffer_offset,len:any,T=u32
c14_align!(c14_align_u32_skewed_sync, sync::Arena, u32, true);
// @h props=C14 tier=thorough timeout=900 bounds=arena=64,plain-buffer-at-any-offset,len:any,T=u16
c14_align!(c14_align_u16_plain_sync, sync::Arena, u16, false);
// @h props=C14 tier=thorough timeout=900 bounds=arena=64,skewed-handle,len:any,T=u64
c14_align!(c14_align_u64_skewed_unsync, unsync::Arena, u64, true);
// @h props=C14 tier=thorough timeout=900 bounds=arena=64,plain-buffer,len:any,T=u8 optcover=put_aligned_fails_with_bytes_to_spare|padding_was_needed
c14_align!(c14_align_u8_plain_unsync, unsync::Arena, u8, false);

// ---- put::<T> (unaligned store) -------------------------------------------------------------------
// @h props=C14 tier=quick timeout=600 bounds=buffer=16-of-48,len:any,T=[u8;3]
#[kani::proof]
#[kani::unwind(5)]
fn c14_put_t_ref_unsync() {
  let arena: unsync::Arena = mk_arena();
  let mut b = setup_ref(&arena);
  let p = arena.raw_ptr();
  let len0 = b.len;
  let v: [u8; 3] = kani::any();
  let x: usize = kani::any();
  kani::assume(x < ACAP);
  let before = unsafe { p.add(x).read() };
  match unsafe { b.put::<[u8; 3]>(v) } {
    Ok(_) => {
      assert!(len0 + 3 <= BCAP && b.len == len0 + 3, "C14: put::<T> advances len past the value");
      if x >= 8 + len0 && x < 8 + len0 + 3 {
        assert!(unsafe { p.add(x).read() } == v[x - 8 - len0], "C14: put::<T> stores the value at [len, len+size)");
      } else {
        assert!(unsafe { p.add(x).read() } == before, "C14: put::<T> touches nothing but the bytes of the value");
      }
    }
    Err(e) => {
      assert!(len0 + 3 > BCAP && b.len == len0, "C14: put::<T> fails only if T does not fit; len unchanged");
      assert!(unsafe { p.add(x).read() } == before, "C14: failed put::<T> touches nothing");
      core::mem::forget(e);
    }
  }
  core::mem::forget(b);
  core::mem::forget(arena);
}

// ---- owned buffers share the implementation (macro-instantiated twice): spot checks ---------------
// @h props=C14 tier=quick timeout=900 bounds=owned-buffer=16,len:0..=16,value:any
#[kani::proof]
#[kani::unwind(10)]
fn c14_u32_le_owned_unsync() {
  let arena: unsync::Arena = mk_arena();
  let mut a = arena.alloc_bytes(7).unwrap();
  unsafe { a.detach() };
  core::mem::forget(a);
  let mut b = arena.alloc_bytes_owned(BCAP as u32).unwrap();
  unsafe { b.detach() };
  let data: [u8; ACAP] = kani::any();
  unsafe { core::ptr::copy_nonoverlapping(data.as_ptr(), arena.raw_mut_ptr(), ACAP) };
  let len0: usize = kani::any();
  kani::assume(len0 <= BCAP);
  b.len = len0;
  let p = arena.raw_ptr();
  let v: u32 = kani::any();
  let x: usize = kani::any();
  kani::assume(x < ACAP);
  let before = unsafe { p.add(x).read() };
  match b.put_u32_le(v) {
    Ok(()) => {
      assert!(len0 + 4 <= BCAP && b.len == len0 + 4, "C14: put advances len past the value");
      let enc = v.to_le_bytes();
      let j: usize = kani::any();
      kani::assume(j < 4);
      assert!(unsafe { p.add(8 + len0 + j).read() } == enc[j], "C14: put stores the value's encoding at [len, len+SIZE)");
      if x < 8 + len0 || x >= 8 + len0 + 4 {
        assert!(unsafe { p.add(x).read() } == before, "C14: put touches nothing but the bytes of the value");
      }
      assert!(matches!(b.get_u32_le(), Ok(g) if g == v) && b.len == len0, "C14: get returns the value and restores len");
    }
    Err(e) => {
      assert!(len0 + 4 > BCAP && b.len == len0, "C14: put fails only if the value does not fit; len unchanged");
      assert!(unsafe { p.add(x).read() } == before, "C14: failed fixed-width put leaves every byte unchanged");
      core::mem::forget(e);
    }
  }
  core::mem::forget(b);
  core::mem::forget(arena);
}
