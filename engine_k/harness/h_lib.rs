//! Overlay module (child of the crate root). Generic harness bodies over `A: Allocator`;
//! the `#[kani::proof]` wrappers at the bottom of each section instantiate them per flavour,
//! free-list kind and bound. Assertion messages are tagged with the property they decide
//! ("C01: ..."); "ENC: ..." marks self-checks of the harness's own state encoding.
#![allow(dead_code, unused_imports, unused_variables, clippy::all)]
use super::*;
use crate::{sync, unsync};

pub(crate) const MAX: u32 = u32::MAX;

// ---------------------------------------------------------------------------------------------
// Layout of the unified arena (re-stated from README/Options docs; cross-checked against the
// code by the ENC assertions and by `enc_witness_*`).
// ---------------------------------------------------------------------------------------------
#[derive(Clone, Copy)]
pub(crate) struct Lay {
  pub res: u32,
  pub hdr: u32,
  pub dofs: u32,
  pub cap: u32,
}

pub(crate) const fn lay(res: u32, cap: u32) -> Lay {
  let hdr = ((res + 7) & !7) + 8;
  Lay { res, hdr, dofs: hdr + 24, cap }
}

#[inline(always)]
pub(crate) const fn up(x: u32, a: u32) -> u32 {
  (x + a - 1) & !(a - 1)
}

pub(crate) fn mk<A: Allocator>(fl: Freelist, retries: u8, l: &Lay, min_seg: u32) -> A {
  Options::new()
    .with_capacity(l.cap)
    .with_unify(true)
    .with_freelist(fl)
    .with_maximum_retries(retries)
    .with_reserved(l.res)
    .with_minimum_segment_size(min_seg)
    .alloc::<A>()
    .unwrap()
}

#[inline(always)]
pub(crate) unsafe fn rd64(p: *const u8, off: u32) -> u64 {
  unsafe { (p.add(off as usize) as *const u64).read() }
}
#[inline(always)]
pub(crate) unsafe fn wr64(p: *mut u8, off: u32, v: u64) {
  unsafe { (p.add(off as usize) as *mut u64).write(v) }
}
#[inline(always)]
pub(crate) unsafe fn rd32(p: *const u8, off: u32) -> u32 {
  unsafe { (p.add(off as usize) as *const u32).read() }
}
#[inline(always)]
pub(crate) unsafe fn wr32(p: *mut u8, off: u32, v: u32) {
  unsafe { (p.add(off as usize) as *mut u32).write(v) }
}
#[inline(always)]
pub(crate) unsafe fn rd8(p: *const u8, off: u32) -> u8 {
  unsafe { p.add(off as usize).read() }
}

#[inline(always)]
pub(crate) fn disjoint(a: u32, al: u32, b: u32, bl: u32) -> bool {
  // half-open ranges, lengths may be 0 (an empty range overlaps nothing)
  al == 0 || bl == 0 || (a as u64 + al as u64 <= b as u64) || (b as u64 + bl as u64 <= a as u64)
}

// ---------------------------------------------------------------------------------------------
// Symbolic quiescent pre-state satisfying INV
// ---------------------------------------------------------------------------------------------
#[derive(Clone, Copy)]
pub(crate) struct Pre<const N: usize> {
  pub k: usize,
  pub off: [u32; N],
  pub size: [u32; N],
  pub allocated: u32,
  pub min_seg: u32,
  pub discarded: u32,
}

impl<const N: usize> Pre<N> {
  /// extent of node i: [off, off + 8 + size)
  #[inline(always)]
  pub fn ext(&self, i: usize) -> u32 {
    8 + self.size[i]
  }

  pub fn any(l: &Lay, fl: Freelist) -> Self {
    let p = Pre::<N> {
      k: kani::any(),
      off: kani::any(),
      size: kani::any(),
      allocated: kani::any(),
      min_seg: kani::any(),
      discarded: kani::any(),
    };
    kani::assume(p.k <= N);
    if matches!(fl, Freelist::None) {
      kani::assume(p.k == 0);
    }
    kani::assume(p.allocated >= l.dofs && p.allocated <= l.cap);
    kani::assume(p.min_seg <= 2 * l.cap);
    kani::assume(p.discarded <= (1 << 24));
    let mut i = 0;
    while i < N {
      if i < p.k {
        kani::assume(p.off[i] % 8 == 0);
        kani::assume(p.off[i] >= l.dofs);
        kani::assume(p.size[i] >= 1 && p.size[i] <= l.cap);
        kani::assume(p.off[i] <= l.cap && p.off[i] + 8 + p.size[i] <= p.allocated);
        let mut j = 0;
        while j < i {
          kani::assume(disjoint(p.off[i], p.ext(i), p.off[j], p.ext(j)));
          j += 1;
        }
        if i > 0 {
          match fl {
            Freelist::Optimistic => kani::assume(p.size[i - 1] >= p.size[i]),
            Freelist::Pessimistic => kani::assume(p.size[i - 1] <= p.size[i]),
            _ => {}
          }
        }
      }
      i += 1;
    }
    p
  }

  pub fn total(&self) -> u32 {
    let mut s = 0u32;
    let mut i = 0;
    while i < N {
      if i < self.k {
        s += self.size[i];
      }
      i += 1;
    }
    s
  }

  /// true iff [a, a+al) is disjoint from every node extent
  pub fn clear_of(&self, a: u32, al: u32) -> bool {
    let mut ok = true;
    let mut i = 0;
    while i < N {
      if i < self.k && !disjoint(a, al, self.off[i], self.ext(i)) {
        ok = false;
      }
      i += 1;
    }
    ok
  }
}

/// Write the pre-state into the arena through its raw pointer.
pub(crate) unsafe fn poke<A: Allocator, const N: usize, const CAP: usize>(
  arena: &A,
  l: &Lay,
  pre: &Pre<N>,
  data: &[u8; CAP],
) {
  unsafe {
    let p = arena.raw_mut_ptr();
    core::ptr::copy_nonoverlapping(
      data.as_ptr().add(l.dofs as usize),
      p.add(l.dofs as usize),
      CAP - l.dofs as usize,
    );
    let head = if pre.k > 0 { pre.off[0] } else { MAX };
    wr64(p, l.hdr, ((MAX as u64) << 32) | head as u64);
    wr32(p, l.hdr + 8, pre.allocated);
    wr32(p, l.hdr + 12, pre.min_seg);
    wr32(p, l.hdr + 16, pre.discarded);
    let mut i = 0;
    while i < N {
      if i < pre.k {
        let next = if i + 1 < pre.k { pre.off[i + 1] } else { MAX };
        wr64(p, pre.off[i], ((pre.size[i] as u64) << 32) | next as u64);
      }
      i += 1;
    }
  }
}

/// One symbolic live range L = [la, la+ll) with a witness byte w inside it, and a witness byte r
/// in the prefix (reserved bytes, sanity bytes) outside the header words.
#[derive(Clone, Copy)]
pub(crate) struct Live {
  pub la: u32,
  pub ll: u32,
  pub w: u32,
  pub r: u32,
}

impl Live {
  pub fn any<const N: usize>(l: &Lay, pre: &Pre<N>) -> Self {
    let v = Live { la: kani::any(), ll: kani::any(), w: kani::any(), r: kani::any() };
    // ll may be 0 when nothing is live (e.g. allocated == data_offset)
    kani::assume(v.la >= l.dofs && v.la <= pre.allocated && v.ll <= pre.allocated - v.la);
    kani::assume(pre.clear_of(v.la, v.ll));
    kani::assume(v.ll == 0 || (v.w >= v.la && v.w < v.la + v.ll));
    kani::assume(v.r < l.hdr);
    v
  }
}

/// The free list as found in memory after the operation.
pub(crate) struct Post<const M: usize> {
  pub n: usize,
  pub off: [u32; M],
  pub size: [u32; M],
  pub terminated: bool,
  pub wellformed: bool,
  pub sentinel_size: u32,
  pub allocated: u32,
  pub min_seg: u32,
  pub discarded: u32,
}

pub(crate) unsafe fn read_post<A: Allocator, const M: usize>(arena: &A, l: &Lay, cap: u32) -> Post<M> {
  unsafe {
    let p = arena.raw_ptr();
    let s = rd64(p, l.hdr);
    let mut post = Post::<M> {
      n: 0,
      off: [0; M],
      size: [0; M],
      terminated: false,
      wellformed: true,
      sentinel_size: (s >> 32) as u32,
      allocated: rd32(p, l.hdr + 8),
      min_seg: rd32(p, l.hdr + 12),
      discarded: rd32(p, l.hdr + 16),
    };
    let mut next = s as u32;
    let mut i = 0;
    while i < M {
      if next == MAX {
        post.terminated = true;
      } else if post.wellformed && !post.terminated {
        if next % 8 != 0 || next < l.dofs || next as u64 + 8 > cap as u64 {
          post.wellformed = false;
        } else {
          let v = rd64(p, next);
          post.off[i] = next;
          post.size[i] = (v >> 32) as u32;
          post.n = i + 1;
          next = v as u32;
        }
      }
      i += 1;
    }
    if next == MAX {
      post.terminated = true;
    }
    post
  }
}

/// INV on the post-state (C10's well-formedness clauses) relative to the live witness `lv` and
/// an extra live extent `h` (the handle just returned, or an empty range).
pub(crate) fn assert_inv_post<const M: usize>(post: &Post<M>, l: &Lay, fl: Freelist, lv: &Live, h: (u32, u32)) {
  assert!(post.sentinel_size == MAX, "C10: sentinel node keeps its marker size");
  assert!(post.wellformed, "C10: every link is 8-aligned and inside the data area");
  assert!(post.terminated, "C10: free list is finite and acyclic (within the bound)");
  assert!(post.allocated >= l.dofs && post.allocated <= l.cap, "C10: cursor inside [data_offset, capacity]");
  let mut i = 0;
  while i < M {
    if i < post.n {
      let e = 8u64 + post.size[i] as u64;
      assert!(post.size[i] != 0, "C10: no node is left marked as removed at a quiescent point");
      assert!(post.off[i] as u64 + e <= post.allocated as u64, "C10: segment lies below the cursor");
      assert!(disjoint(post.off[i], e as u32, lv.la, lv.ll), "C10: segment disjoint from every live allocation");
      assert!(disjoint(post.off[i], e as u32, h.0, h.1), "C01: returned range disjoint from every free segment");
      let mut j = 0;
      while j < i {
        assert!(
          disjoint(post.off[i], e as u32, post.off[j], 8 + post.size[j]),
          "C10: segments mutually disjoint"
        );
        j += 1;
      }
      if i > 0 {
        match fl {
          Freelist::Optimistic => assert!(post.size[i - 1] >= post.size[i], "C10: Optimistic list is ordered by size, descending"),
          Freelist::Pessimistic => assert!(post.size[i - 1] <= post.size[i], "C10: Pessimistic list is ordered by size, ascending"),
          _ => {}
        }
      }
    }
    i += 1;
  }
  if matches!(fl, Freelist::None) {
    assert!(post.n == 0, "C10: Freelist::None keeps no list");
  }
}

/// list(post) == list(pre)
pub(crate) fn list_unchanged<const N: usize, const M: usize>(pre: &Pre<N>, post: &Post<M>) -> bool {
  let mut ok = post.n == pre.k && post.terminated && post.wellformed;
  let mut i = 0;
  while i < N {
    if i < pre.k && i < M && (post.off[i] != pre.off[i] || post.size[i] != pre.size[i]) {
      ok = false;
    }
    i += 1;
  }
  ok
}

/// post == pre minus node `gone` (if < N) plus node `add` (if Some)
pub(crate) fn list_is<const N: usize, const M: usize>(
  pre: &Pre<N>,
  post: &Post<M>,
  gone: usize,
  add: Option<(u32, u32)>,
) -> bool {
  let expect_n = pre.k - (if gone < pre.k { 1 } else { 0 }) + (if add.is_some() { 1 } else { 0 });
  let mut ok = post.n == expect_n && post.terminated && post.wellformed;
  let mut i = 0;
  while i < M {
    if i < post.n {
      let mut found = false;
      let mut j = 0;
      while j < N {
        if j < pre.k && j != gone && pre.off[j] == post.off[i] && pre.size[j] == post.size[i] {
          found = true;
        }
        j += 1;
      }
      if let Some((o, s)) = add {
        if o == post.off[i] && s == post.size[i] {
          found = true;
        }
      }
      if !found {
        ok = false;
      }
    }
    i += 1;
  }
  ok
}

// ---------------------------------------------------------------------------------------------
// Allocation step
// ---------------------------------------------------------------------------------------------
#[derive(Clone, Copy, PartialEq, Eq)]
pub(crate) enum Kind {
  Bytes,
  Typed,
  Aligned,
}

pub(crate) struct Got {
  pub ok: bool,
  pub ro_err: bool,
  pub space_err: bool,
  pub o: u32,
  pub c: u32,
  pub bo: u32,
  pub bc: u32,
}

fn got_of<B: Buffer>(mut h: B) -> Got {
  unsafe { h.detach() };
  let g = Got {
    ok: true,
    ro_err: false,
    space_err: false,
    o: h.offset() as u32,
    c: h.capacity() as u32,
    bo: h.buffer_offset() as u32,
    bc: h.buffer_capacity() as u32,
  };
  core::mem::forget(h);
  g
}

fn got_err(e: Error) -> Got {
  let g = Got {
    ok: false,
    ro_err: matches!(e, Error::ReadOnly),
    space_err: matches!(e, Error::InsufficientSpace { .. }),
    o: 0,
    c: 0,
    bo: 0,
    bc: 0,
  };
  core::mem::forget(e);
  g
}

pub(crate) fn do_alloc<A: Allocator, T>(arena: &A, kind: Kind, n: u32) -> Got {
  match kind {
    Kind::Bytes => match arena.alloc_bytes(n) {
      Ok(h) => got_of(h),
      Err(e) => got_err(e),
    },
    Kind::Aligned => match arena.alloc_aligned_bytes::<T>(n) {
      Ok(h) => got_of(h),
      Err(e) => got_err(e),
    },
    Kind::Typed => match unsafe { arena.alloc::<T>() } {
      Ok(h) => got_of(h),
      Err(e) => got_err(e),
    },
  }
}

pub(crate) struct Cfg {
  pub fl: Freelist,
  pub retries: u8,
  pub res: u32,
  /// request sizes: false => n <= 2*CAP, true => any u32 (C04)
  pub anysize: bool,
}

/// One allocation call from an arbitrary INV state. `T` supplies (size, align) for Typed/Aligned.
pub(crate) fn step_alloc<A: Allocator, T, const N: usize, const M: usize, const CAP: usize>(cfg: Cfg, kind: Kind) {
  let l = lay(cfg.res, CAP as u32);
  let arena: A = mk::<A>(cfg.fl, cfg.retries, &l, 20);
  assert!(arena.data_offset() == l.dofs as usize, "ENC: data_offset");
  let pre = Pre::<N>::any(&l, cfg.fl);
  let lv = Live::any(&l, &pre);
  let data: [u8; CAP] = kani::any();
  unsafe { poke::<A, N, CAP>(&arena, &l, &pre, &data) };
  assert!(arena.allocated() == pre.allocated as usize, "ENC: allocated readback");
  assert!(arena.discarded() == pre.discarded, "ENC: discarded readback");
  assert!(arena.minimum_segment_size() == pre.min_seg, "ENC: min segment size readback");
  let p = arena.raw_ptr();
  let w_before = if lv.ll > 0 { unsafe { rd8(p, lv.w) } } else { 0 };
  let r_before = unsafe { rd8(p, lv.r) };

  let n: u32 = kani::any();
  if !cfg.anysize {
    kani::assume(n <= 2 * CAP as u32);
  }
  let tsize = core::mem::size_of::<T>() as u32;
  let talign = core::mem::align_of::<T>() as u32;
  let g = do_alloc::<A, T>(&arena, kind, n);
  let post: Post<M> = unsafe { read_post::<A, M>(&arena, &l, CAP as u32) };

  // --- what was asked for, in the property's own terms
  let (req_cap_min, req_exact, req_align, zero_req): (u64, bool, u32, bool) = match kind {
    Kind::Bytes => (n as u64, true, 1, n == 0),
    Kind::Typed => (tsize as u64, true, talign, tsize == 0),
    Kind::Aligned => (tsize as u64 + n as u64, false, talign, tsize == 0 && n == 0),
  };
  // the size the free list is asked for when fresh space cannot serve (README: padded size)
  let need: u64 = match kind {
    Kind::Bytes => n as u64,
    Kind::Typed => tsize as u64 + talign as u64 - 1,
    Kind::Aligned => {
      if tsize == 0 {
        n as u64
      } else {
        tsize as u64 + talign as u64 - 1 + n as u64
      }
    }
  };
  let fresh_end: u64 = match kind {
    Kind::Bytes => pre.allocated as u64 + n as u64,
    Kind::Typed => up(pre.allocated, talign) as u64 + tsize as u64,
    Kind::Aligned => {
      if tsize == 0 {
        pre.allocated as u64 + n as u64
      } else {
        up(pre.allocated, talign) as u64 + tsize as u64 + n as u64
      }
    }
  };
  let fresh_fits = fresh_end <= CAP as u64;

  assert!(unsafe { rd8(p, lv.r) } == r_before, "C16: reserved prefix / identification bytes never written");
  if lv.ll > 0 {
    assert!(unsafe { rd8(p, lv.w) } == w_before, "C01: bytes of another live allocation unchanged");
  }
  assert!(arena.remaining() == CAP - arena.allocated(), "C16: remaining == capacity - allocated");
  assert!(post.min_seg == pre.min_seg, "C10: minimum segment size untouched by allocation");

  if g.ok {
    // ---- success
    if zero_req {
      assert!(g.c == 0 && g.bc == 0, "C03: zero-sized request yields a handle that occupies nothing");
      assert!(post.allocated == pre.allocated && post.discarded == pre.discarded, "C03: zero-sized request consumes no space");
      assert!(list_unchanged(&pre, &post), "C03: zero-sized request leaves the free list alone");
    } else {
      if req_exact {
        assert!(g.c as u64 == req_cap_min, "C03: capacity is exactly what was requested");
      } else {
        assert!(g.c as u64 >= req_cap_min, "C03: capacity at least size_of::<T>() + n");
      }
      assert!(g.o % req_align == 0, "C03: offset aligned for T");
      // accessible range and buffer range inside the handed-out part of the data area
      assert!(g.o >= l.dofs && g.o as u64 + g.c as u64 <= post.allocated as u64, "C01: accessible range inside [data_offset, allocated)");
      assert!(g.bo >= l.dofs && g.bo as u64 + g.bc as u64 <= post.allocated as u64, "C01: buffer extent inside [data_offset, allocated)");
      assert!(disjoint(g.o, g.c, lv.la, lv.ll), "C01: accessible range disjoint from every other live allocation");
      assert!(disjoint(g.bo, g.bc, lv.la, lv.ll), "C01: buffer extent disjoint from every other live allocation");
      if kind == Kind::Bytes {
        let z: u32 = kani::any();
        kani::assume(z >= g.o && z - g.o < g.c);
        assert!(unsafe { rd8(p, z) } == 0, "C08: alloc_bytes returns zero-filled memory");
      }
      // the union of the two ranges is what the owner may touch / will give back
      let lo = if g.o < g.bo { g.o } else { g.bo };
      let hi1 = g.o as u64 + g.c as u64;
      let hi2 = g.bo as u64 + g.bc as u64;
      let hi = if hi1 > hi2 { hi1 } else { hi2 };
      assert_inv_post(&post, &l, cfg.fl, &lv, (lo, (hi - lo as u64) as u32));

      if fresh_fits {
        // fresh space is used first
        assert!(g.bo == pre.allocated, "C10: fresh space is used while it lasts");
        assert!(post.allocated as u64 == fresh_end, "C10: cursor advanced by exactly the request (plus alignment padding)");
        assert!(g.o == up(pre.allocated, req_align) || kind == Kind::Bytes && g.o == pre.allocated, "C16: allocation starts at the first suitably aligned offset");
        assert!(list_unchanged(&pre, &post), "C10: fast path leaves the free list alone");
        assert!(post.discarded == pre.discarded, "C20: allocation from fresh space does not change discarded()");
        kani::cover!(pre.k > 0 || matches!(cfg.fl, Freelist::None), "fast path with a non-empty list");
      } else {
        // served from the list
        assert!(post.allocated == pre.allocated, "C10: cursor unchanged when served from the free list");
        assert!(!matches!(cfg.fl, Freelist::None), "C10: Freelist::None never reuses freed space");
        // which segment must have been chosen
        let mut chosen = N;
        match cfg.fl {
          Freelist::Optimistic => {
            if pre.k > 0 {
              chosen = 0;
            }
          }
          _ => {
            let mut i = N;
            while i > 0 {
              i -= 1;
              if i < pre.k && pre.size[i] as u64 >= need {
                chosen = i;
              }
            }
          }
        }
        assert!(chosen < pre.k, "C10: success from the list implies a segment existed");
        if chosen < pre.k {
          assert!(pre.size[chosen] as u64 >= need, "C10: chosen segment is large enough");
          assert!(g.bo == pre.off[chosen], "C10: Optimistic takes the largest / Pessimistic the smallest fitting segment");
          assert!(g.o >= pre.off[chosen] && hi <= pre.off[chosen] as u64 + 8 + pre.size[chosen] as u64, "C01: handle stays inside the recycled segment");
          // remainder rule (README: node + minimum segment size)
          let data_end = pre.off[chosen] + 8 + need as u32;
          let rem = pre.size[chosen] - need as u32;
          let pad = up(data_end, 8) - data_end;
          let split = rem > 0 && (pad + 8) < rem && rem - pad - 8 >= pre.min_seg;
          if split {
            assert!(list_is(&pre, &post, chosen, Some((up(data_end, 8), rem - pad - 8))), "C10: remainder re-inserted as a segment");
            assert!(post.discarded >= pre.discarded, "C20: discarded() never decreases");
            assert!(hi <= data_end as u64, "C01: handle does not reach into the re-inserted remainder");
            kani::cover!(true, "slow path with split");
          } else {
            assert!(list_is(&pre, &post, chosen, None), "C10: segment removed, nothing re-inserted");
            assert!(post.discarded == pre.discarded, "C20: no accounting change without a remainder");
            kani::cover!(true, "slow path without split");
          }
        }
      }
    }
  } else {
    // ---- failure
    assert!(g.space_err, "C04: failure is InsufficientSpace on a writable arena");
    assert!(!zero_req, "C03: zero-sized requests succeed on any writable arena");
    assert!(post.allocated == pre.allocated, "C04: failed allocation leaves allocated() unchanged");
    assert!(post.discarded == pre.discarded, "C04: failed allocation leaves discarded() unchanged");
    assert!(list_unchanged(&pre, &post), "C04: failed allocation leaves the free list unchanged");
    assert!(!fresh_fits, "C10: a request that fits fresh space succeeds");
    match cfg.fl {
      Freelist::Optimistic => assert!(pre.k == 0 || (pre.size[0] as u64) < need, "C10: Optimistic fails iff the largest segment is too small"),
      Freelist::Pessimistic => {
        let mut i = 0;
        while i < N {
          if i < pre.k {
            assert!((pre.size[i] as u64) < need, "C10: Pessimistic fails iff no segment fits");
          }
          i += 1;
        }
      }
      _ => {}
    }
    kani::cover!(pre.k > 0 || matches!(cfg.fl, Freelist::None), "error with a non-empty list");
  }
  core::mem::forget(arena);
}

// ---------------------------------------------------------------------------------------------
// dealloc step: what every handle's Drop calls (C13 links Drop to this)
// ---------------------------------------------------------------------------------------------
pub(crate) fn step_dealloc<A: Allocator, const N: usize, const M: usize, const CAP: usize>(cfg: Cfg) {
  let l = lay(cfg.res, CAP as u32);
  let arena: A = mk::<A>(cfg.fl, cfg.retries, &l, 20);
  assert!(arena.data_offset() == l.dofs as usize, "ENC: data_offset");
  let pre = Pre::<N>::any(&l, cfg.fl);
  let lv = Live::any(&l, &pre);
  let data: [u8; CAP] = kani::any();
  unsafe { poke::<A, N, CAP>(&arena, &l, &pre, &data) };
  assert!(arena.allocated() == pre.allocated as usize, "ENC: allocated readback");
  let p = arena.raw_ptr();
  let w_before = if lv.ll > 0 { unsafe { rd8(p, lv.w) } } else { 0 };
  let r_before = unsafe { rd8(p, lv.r) };

  // the range being released: a live allocation's buffer extent
  let o: u32 = kani::any();
  let s: u32 = kani::any();
  kani::assume(s >= 1 && o >= l.dofs && o <= pre.allocated && s <= pre.allocated - o);
  kani::assume(pre.clear_of(o, s));
  kani::assume(disjoint(o, s, lv.la, lv.ll));

  let ret = unsafe { arena.dealloc(o, s) };
  let post: Post<M> = unsafe { read_post::<A, M>(&arena, &l, CAP as u32) };

  assert!(unsafe { rd8(p, lv.r) } == r_before, "C16: reserved prefix / identification bytes never written");
  if lv.ll > 0 {
    assert!(unsafe { rd8(p, lv.w) } == w_before, "C01: bytes of another live allocation unchanged by a release");
  }
  assert!(post.min_seg == pre.min_seg, "C10: minimum segment size untouched by release");
  assert_inv_post(&post, &l, cfg.fl, &lv, (0, 0));
  assert!(post.discarded >= pre.discarded, "C20: discarded() never decreases");

  if o + s == pre.allocated {
    assert!(ret, "C10: releasing the topmost allocation succeeds");
    assert!(post.allocated == o, "C10: releasing the topmost allocation hands the space back to the cursor");
    assert!(list_unchanged(&pre, &post), "C10: releasing on top does not touch the list");
    assert!(post.discarded == pre.discarded, "C20: releasing on top does not change discarded()");
    kani::cover!(pre.k > 0 || matches!(cfg.fl, Freelist::None), "top release with list");
  } else {
    assert!(post.allocated == pre.allocated, "C10: cursor unchanged by a non-top release");
    let a = up(o, 8);
    let pad = a - o;
    let fits = pad + 8 < s && s - pad - 8 >= pre.min_seg;
    match cfg.fl {
      Freelist::None => {
        assert!(post.discarded == pre.discarded + s, "C20: with Freelist::None a non-top release raises discarded() by its size");
        assert!(list_unchanged(&pre, &post), "C10: Freelist::None keeps no list");
      }
      _ => {
        if fits {
          assert!(ret, "C10: release that can hold a node becomes a segment");
          assert!(list_is(&pre, &post, N, Some((a, s - pad - 8))), "C10: released range becomes exactly one new segment");
          assert!(post.discarded >= pre.discarded, "C20: discarded() never decreases");
          kani::cover!(pre.k == N, "insert into a full-length list");
        } else {
          assert!(!ret, "C20: a release too small to become a segment is reported as not reusable");
          assert!(list_unchanged(&pre, &post), "C20: a release too small to become a segment is never put on the list");
          assert!(post.discarded == pre.discarded + s, "C20: a release too small to become a segment raises discarded() by its size");
          kani::cover!(true, "too small");
        }
      }
    }
  }
  core::mem::forget(arena);
}

macro_rules! cfg {
  ($fl:ident, $r:expr) => {
    Cfg { fl: Freelist::$fl, retries: $r, res: 0, anysize: false }
  };
  ($fl:ident, $r:expr, any) => {
    Cfg { fl: Freelist::$fl, retries: $r, res: 0, anysize: true }
  };
  ($fl:ident, $r:expr, res $res:expr) => {
    Cfg { fl: Freelist::$fl, retries: $r, res: $res, anysize: false }
  };
}

// ============================ alloc_bytes from INV ==========================================
// @h props=C01,C03,C08,C10,C16,C20 quick=C01,C08,C10,C20 timeout=1500 bounds=CAP=128,MAXN=2,n<=256
#[kani::proof]
#[kani::unwind(5)]
fn inv_alloc_bytes_unsync_opt_n2() {
  step_alloc::<unsync::Arena, u8, 2, 3, 128>(cfg!(Optimistic, 1), Kind::Bytes);
}

// @h props=C01,C03,C08,C10,C16,C20 quick=C01,C03,C08,C10,C20 timeout=1500 bounds=CAP=128,MAXN=2,n<=256
#[kani::proof]
#[kani::unwind(5)]
fn inv_alloc_bytes_unsync_pess_n2() {
  step_alloc::<unsync::Arena, u8, 2, 3, 128>(cfg!(Pessimistic, 1), Kind::Bytes);
}

// @h props=C01,C03,C08,C10,C16,C20 quick=C01,C03,C08,C10,C20 timeout=1800 bounds=CAP=128,MAXN=2,n<=256,retries=1
#[kani::proof]
#[kani::unwind(5)]
fn inv_alloc_bytes_sync_opt_n2() {
  step_alloc::<sync::Arena, u8, 2, 3, 128>(cfg!(Optimistic, 1), Kind::Bytes);
}

// @h props=C01,C03,C08,C10,C16,C20 quick=C01,C08,C10,C20 timeout=1800 bounds=CAP=128,MAXN=2,n<=256,retries=1
#[kani::proof]
#[kani::unwind(5)]
fn inv_alloc_bytes_sync_pess_n2() {
  step_alloc::<sync::Arena, u8, 2, 3, 128>(cfg!(Pessimistic, 1), Kind::Bytes);
}

// @h props=C01,C03,C08,C10,C16,C20 quick=C16 timeout=900 bounds=CAP=128,list=None,n<=256 optcover=slow_path_with_split|slow_path_without_split
#[kani::proof]
#[kani::unwind(4)]
fn inv_alloc_bytes_unsync_none() {
  step_alloc::<unsync::Arena, u8, 1, 2, 128>(cfg!(None, 1), Kind::Bytes);
}

// @h props=C01,C03,C08,C10,C16,C20 quick=C16 timeout=900 bounds=CAP=128,list=None,n<=256 optcover=slow_path_with_split|slow_path_without_split
#[kani::proof]
#[kani::unwind(4)]
fn inv_alloc_bytes_sync_none() {
  step_alloc::<sync::Arena, u8, 1, 2, 128>(cfg!(None, 1), Kind::Bytes);
}

// ============================ dealloc from INV ==============================================
// @h props=C01,C10,C13,C16,C20 quick=C01,C10,C20 timeout=1500 bounds=CAP=128,MAXN=2
#[kani::proof]
#[kani::unwind(5)]
fn inv_dealloc_unsync_opt_n2() {
  step_dealloc::<unsync::Arena, 2, 3, 128>(cfg!(Optimistic, 1));
}

// @h props=C01,C10,C13,C16,C20 quick=C01,C10,C20 timeout=1500 bounds=CAP=128,MAXN=2
#[kani::proof]
#[kani::unwind(5)]
fn inv_dealloc_unsync_pess_n2() {
  step_dealloc::<unsync::Arena, 2, 3, 128>(cfg!(Pessimistic, 1));
}

// @h props=C01,C10,C13,C16,C20 quick=C01,C10,C20 timeout=1800 bounds=CAP=128,MAXN=2
#[kani::proof]
#[kani::unwind(5)]
fn inv_dealloc_sync_opt_n2() {
  step_dealloc::<sync::Arena, 2, 3, 128>(cfg!(Optimistic, 1));
}

// @h props=C01,C10,C13,C16,C20 quick=C01,C10,C20 timeout=1800 bounds=CAP=128,MAXN=2
#[kani::proof]
#[kani::unwind(5)]
fn inv_dealloc_sync_pess_n2() {
  step_dealloc::<sync::Arena, 2, 3, 128>(cfg!(Pessimistic, 1));
}

// @h props=C01,C10,C16,C20 quick=C20 timeout=900 bounds=CAP=128,list=None optcover=insert_into_a_full-length_list|too_small
#[kani::proof]
#[kani::unwind(4)]
fn inv_dealloc_unsync_none() {
  step_dealloc::<unsync::Arena, 1, 2, 128>(cfg!(None, 1));
}

// @h props=C01,C10,C16,C20 tier=thorough timeout=900 bounds=CAP=128,list=None optcover=insert_into_a_full-length_list|too_small
#[kani::proof]
#[kani::unwind(4)]
fn inv_dealloc_sync_none() {
  step_dealloc::<sync::Arena, 1, 2, 128>(cfg!(None, 1));
}

// ============================ C17: rewind ====================================================
/// Reference semantics of rewind, in i128 so that nothing can overflow.
fn rewind_ref(pos: ArenaPosition, allocated: u32, dofs: u32, cap: u32) -> u32 {
  let t: i128 = match pos {
    ArenaPosition::Start(n) => n as i128,
    ArenaPosition::End(n) => cap as i128 - n as i128,
    ArenaPosition::Current(d) => allocated as i128 + d as i128,
  };
  let lo = dofs as i128;
  let hi = cap as i128;
  (if t < lo { lo } else if t > hi { hi } else { t }) as u32
}

pub(crate) fn any_pos() -> ArenaPosition {
  let which: u8 = kani::any();
  match which % 3 {
    0 => ArenaPosition::Start(kani::any()),
    1 => ArenaPosition::End(kani::any()),
    _ => ArenaPosition::Current(kani::any()),
  }
}

pub(crate) fn step_rewind<A: Allocator, const CAP: usize>(unify: bool, res: u32) {
  let arena: A = Options::new()
    .with_capacity(CAP as u32)
    .with_unify(unify)
    .with_reserved(res)
    .with_freelist(Freelist::None)
    .alloc::<A>()
    .unwrap();
  let dofs = arena.data_offset() as u32;
  // put the cursor anywhere in [data_offset, cap] through the public API
  let n0: u32 = kani::any();
  kani::assume(n0 <= CAP as u32 - dofs);
  match arena.alloc_bytes(n0) {
    Ok(mut h) => {
      unsafe { h.detach() };
      core::mem::forget(h);
    }
    Err(_) => assert!(false, "C04: request that fits fresh space succeeds"),
  }
  let a0 = arena.allocated() as u32;
  assert!(a0 == dofs + n0, "C16: first allocation starts at data_offset");
  let p = arena.raw_mut_ptr();
  let data: [u8; CAP] = kani::any();
  if !unify {
    // plain layout: the header is outside the byte array, so every byte may be arbitrary
    unsafe { core::ptr::copy_nonoverlapping(data.as_ptr(), p, CAP) };
  } else {
    unsafe { core::ptr::copy_nonoverlapping(data.as_ptr().add(dofs as usize), p.add(dofs as usize), CAP - dofs as usize) };
  }
  let x: u32 = kani::any();
  kani::assume(x < CAP as u32);
  let l = lay(res, CAP as u32);
  // in the unified layout the cursor word is the one place rewind may write
  kani::assume(!unify || x < l.hdr + 8 || x >= l.hdr + 12);
  let before = unsafe { rd8(p, x) };
  let d0 = arena.discarded();
  let m0 = arena.minimum_segment_size();

  let pos = any_pos();
  unsafe { arena.rewind(pos) };

  let want = rewind_ref(pos, a0, dofs, CAP as u32);
  assert!(arena.allocated() as u32 == want, "C17: rewind sets the cursor to the denoted position clamped into [data_offset, capacity]");
  assert!(unsafe { rd8(p, x) } == before, "C17: rewind changes nothing but the cursor");
  assert!(arena.discarded() == d0 && arena.minimum_segment_size() == m0, "C17: rewind changes nothing but the cursor");
  assert!(arena.remaining() == CAP - want as usize, "C16: remaining == capacity - allocated");
  kani::cover!(matches!(pos, ArenaPosition::Current(d) if d < 0 && want > dofs), "backwards inside the data area");
  kani::cover!(matches!(pos, ArenaPosition::End(_)) && want == CAP as u32);
  core::mem::forget(arena);
}

// @h props=C17,C16 tier=quick timeout=600 bounds=CAP=96,pos:full-u32/i64-range,cursor:any,unify
#[kani::proof]
#[kani::unwind(3)]
fn c17_rewind_fullrange_sync_unify() {
  step_rewind::<sync::Arena, 96>(true, 0);
}
// @h props=C17,C16 tier=quick timeout=600 bounds=CAP=96,pos:full-u32/i64-range,cursor:any,unify
#[kani::proof]
#[kani::unwind(3)]
fn c17_rewind_fullrange_unsync_unify() {
  step_rewind::<unsync::Arena, 96>(true, 0);
}
// @h props=C17,C16 tier=quick seedgrp=rewind_plain timeout=600 bounds=CAP=96,pos:full-range,plain-layout,reserved=5
#[kani::proof]
#[kani::unwind(3)]
fn c17_rewind_fullrange_sync_plain() {
  step_rewind::<sync::Arena, 96>(false, 5);
}
// @h props=C17,C16 tier=quick seedgrp=rewind_plain timeout=600 bounds=CAP=96,pos:full-range,plain-layout,reserved=5
#[kani::proof]
#[kani::unwind(3)]
fn c17_rewind_fullrange_unsync_plain() {
  step_rewind::<unsync::Arena, 96>(false, 5);
}

// ============================ C17: clear =====================================================
pub(crate) fn step_clear<A: Allocator, const N: usize, const M: usize, const CAP: usize>(cfg: Cfg) {
  let l = lay(cfg.res, CAP as u32);
  let arena: A = mk::<A>(cfg.fl, cfg.retries, &l, 20);
  let pre = Pre::<N>::any(&l, cfg.fl);
  let data: [u8; CAP] = kani::any();
  unsafe { poke::<A, N, CAP>(&arena, &l, &pre, &data) };
  assert!(arena.allocated() == pre.allocated as usize, "ENC: allocated readback");
  let p = arena.raw_ptr();
  let r: u32 = kani::any();
  kani::assume(r < l.hdr);
  let r_before = unsafe { rd8(p, r) };
  let ret = unsafe { arena.clear() };
  assert!(ret.is_ok(), "C17: clear succeeds on a writable arena");
  let post: Post<M> = unsafe { read_post::<A, M>(&arena, &l, CAP as u32) };
  // a fresh arena with the same options and the minimum segment size currently in force
  let fresh: A = mk::<A>(cfg.fl, cfg.retries, &l, pre.min_seg);
  assert!(post.allocated == l.dofs && arena.allocated() == fresh.allocated(), "C17: clear puts the cursor at data_offset");
  assert!(post.n == 0 && post.terminated && post.sentinel_size == MAX, "C17: clear empties the free list");
  assert!(post.discarded == 0 && arena.discarded() == fresh.discarded(), "C17: clear resets discarded() to 0");
  assert!(post.min_seg == pre.min_seg && arena.minimum_segment_size() == fresh.minimum_segment_size(), "C17: clear keeps the minimum segment size in force");
  assert!(arena.data_offset() == fresh.data_offset() && arena.capacity() == fresh.capacity(), "C17: cleared arena has the fresh arena's geometry");
  let z: u32 = kani::any();
  kani::assume(z >= l.dofs && z < CAP as u32);
  assert!(unsafe { rd8(p, z) } == 0, "C17: clear zeroes the data area");
  assert!(unsafe { rd8(p, r) } == r_before, "C17: clear leaves the reserved prefix untouched");
  // byte-for-byte equal to the fresh arena everywhere except the 4 padding bytes of the header
  let y: u32 = kani::any();
  kani::assume(y < CAP as u32 && !(y >= l.hdr + 20 && y < l.hdr + 24));
  assert!(unsafe { rd8(p, y) } == unsafe { rd8(fresh.raw_ptr(), y) }, "C17: cleared arena is indistinguishable from a fresh one");
  kani::cover!(pre.k > 0 && pre.discarded > 0);
  core::mem::forget(arena);
  core::mem::forget(fresh);
}

// @h props=C17 tier=quick timeout=900 bounds=CAP=128,MAXN=2
#[kani::proof]
#[kani::unwind(5)]
fn c17_clear_vs_fresh_unsync_opt() {
  step_clear::<unsync::Arena, 2, 3, 128>(cfg!(Optimistic, 1));
}
// @h props=C17 tier=quick timeout=900 bounds=CAP=128,MAXN=2
#[kani::proof]
#[kani::unwind(5)]
fn c17_clear_vs_fresh_sync_pess() {
  step_clear::<sync::Arena, 2, 3, 128>(cfg!(Pessimistic, 1));
}

// ============================ C05: the reopen transformation =================================
/// What a writable reopen does to the file image was decided on the real `map_mut_in` closure by Engine M (R1):
/// `if len > allocated { write_bytes(ptr + allocated, 0, len - allocated) }`, nothing else. This harness applies
/// that transformation to an arbitrary INV state through the arena's own accessors and decides that every
/// observable, the free list, the reserved prefix and every live byte are what they were before closing, that INV
/// still holds, and that one allocation from the reopened state neither overlaps a range that was live before
/// closing nor leaves the data area (the INV-step harnesses then carry C01/C10 through any later history).
pub(crate) fn step_reopen<A: Allocator, const N: usize, const M: usize, const CAP: usize>(cfg: Cfg) {
  let l = lay(cfg.res, CAP as u32);
  let arena: A = mk::<A>(cfg.fl, cfg.retries, &l, 20);
  let pre = Pre::<N>::any(&l, cfg.fl);
  let lv = Live::any(&l, &pre);
  let data: [u8; CAP] = kani::any();
  unsafe { poke::<A, N, CAP>(&arena, &l, &pre, &data) };
  let p = arena.raw_mut_ptr();
  let w_before = unsafe { rd8(p, if lv.ll > 0 { lv.w } else { lv.la.min(CAP as u32 - 1) }) };
  let r_before = unsafe { rd8(p, lv.r) };
  // ---- the reopen transformation (R1), cursor read through the real accessor ----
  let allocated = arena.allocated();
  let len = arena.capacity();
  assert!(allocated == pre.allocated as usize, "ENC: allocated readback");
  if len > allocated {
    unsafe { core::ptr::write_bytes(p.add(allocated), 0, len - allocated) };
  }
  // ---- everything the property lists is what it was before closing ----
  let post: Post<M> = unsafe { read_post::<A, M>(&arena, &l, CAP as u32) };
  assert!(arena.allocated() == pre.allocated as usize && post.allocated == pre.allocated, "C05: allocated() survives the reopen");
  assert!(arena.discarded() == pre.discarded && post.discarded == pre.discarded, "C05: discarded() survives the reopen");
  assert!(arena.minimum_segment_size() == pre.min_seg && post.min_seg == pre.min_seg, "C05: minimum segment size survives the reopen");
  assert!(arena.data_offset() == l.dofs as usize, "C05: data_offset() survives the reopen");
  assert!(list_unchanged(&pre, &post), "C05: freed ranges stay on the free list across the reopen");
  assert_inv_post(&post, &l, cfg.fl, &lv, (0, 0));
  if lv.ll > 0 {
    assert!(unsafe { rd8(p, lv.w) } == w_before, "C05: bytes of a handed-out range are unchanged by the reopen");
  }
  assert!(unsafe { rd8(p, lv.r) } == r_before, "C05: reserved prefix unchanged by the reopen");
  if len > allocated {
    let z: u32 = kani::any();
    kani::assume(z as usize >= allocated && (z as usize) < len);
    assert!(unsafe { rd8(p, z) } == 0, "C05/C08: everything at or above the stored cursor reads zero after the reopen");
  }
  // ---- one allocation from the reopened state ----
  let n: u32 = kani::any();
  kani::assume(n <= 2 * CAP as u32);
  let g = do_alloc::<A, ()>(&arena, Kind::Bytes, n);
  if g.ok {
    // (a zero-sized request is answered with an empty handle at offset 0: no extent to place)
    assert!(g.bc == 0 || (g.bo >= l.dofs && g.bo as u64 + g.bc as u64 <= CAP as u64), "C05: allocation after the reopen lies in the data area");
    assert!(disjoint(g.bo, g.bc, lv.la, lv.ll), "C05: allocation after the reopen does not overlap a range that was live before closing");
    if lv.ll > 0 {
      assert!(unsafe { rd8(p, lv.w) } == w_before, "C05: allocation after the reopen leaves live bytes alone");
    }
  } else {
    assert!(g.space_err, "C05: a refused allocation after the reopen is InsufficientSpace");
  }
  kani::cover!(pre.k > 0 && len > allocated && lv.ll > 0, "reopen with a free list, live data and a tail to zero");
  kani::cover!(len == allocated, "reopen of a full arena: nothing to zero");
  kani::cover!(g.ok && pre.k > 0 && g.bo < pre.allocated, "allocation after the reopen served from a freed range");
  core::mem::forget(arena);
}

// @h props=C05,C08 quick=C05 timeout=1500 bounds=CAP=128,MAXN=2,n<=256
#[kani::proof]
#[kani::unwind(5)]
fn c05_reopen_step_unsync_opt() {
  step_reopen::<unsync::Arena, 2, 3, 128>(cfg!(Optimistic, 1));
}
// @h props=C05,C08 quick=C05 timeout=1800 bounds=CAP=128,MAXN=2,n<=256,retries=1
#[kani::proof]
#[kani::unwind(5)]
fn c05_reopen_step_sync_pess() {
  step_reopen::<sync::Arena, 2, 3, 128>(cfg!(Pessimistic, 1));
}
// @h props=C05 tier=thorough timeout=1800 bounds=CAP=128,MAXN=2,n<=256
#[kani::proof]
#[kani::unwind(5)]
fn c05_reopen_step_unsync_pess() {
  step_reopen::<unsync::Arena, 2, 3, 128>(cfg!(Pessimistic, 1));
}
// @h props=C05 tier=thorough timeout=1800 bounds=CAP=128,MAXN=2,n<=256,retries=1
#[kani::proof]
#[kani::unwind(5)]
fn c05_reopen_step_sync_opt() {
  step_reopen::<sync::Arena, 2, 3, 128>(cfg!(Optimistic, 1));
}
// @h props=C05 tier=thorough timeout=2400 mem=20 bounds=CAP=128,MAXN=3,n<=256
#[kani::proof]
#[kani::unwind(6)]
fn c05_reopen_step_unsync_opt_n3() {
  step_reopen::<unsync::Arena, 3, 4, 128>(cfg!(Optimistic, 1));
}
// @h props=C05 tier=thorough timeout=2400 mem=20 bounds=CAP=128,MAXN=2,reserved=5,n<=256
#[kani::proof]
#[kani::unwind(5)]
fn c05_reopen_step_unsync_pess_res5() {
  step_reopen::<unsync::Arena, 2, 3, 128>(cfg!(Pessimistic, 1, res 5));
}
// @h props=C05 tier=thorough timeout=900 bounds=CAP=128,list=None,n<=256 optcover=reopen_with_a_free_list|allocation_after_the_reopen_served
#[kani::proof]
#[kani::unwind(5)]
fn c05_reopen_step_sync_none() {
  step_reopen::<sync::Arena, 1, 2, 128>(cfg!(None, 1));
}

// ============================ C15: arena-level readers =======================================
pub(crate) fn c15_setup<A: Allocator, const CAP: usize>() -> (A, u32) {
  let l = lay(0, CAP as u32);
  let arena: A = mk::<A>(Freelist::None, 1, &l, 20);
  let allocated: u32 = kani::any();
  kani::assume(allocated >= l.dofs && allocated <= CAP as u32);
  let data: [u8; CAP] = kani::any();
  unsafe {
    let p = arena.raw_mut_ptr();
    core::ptr::copy_nonoverlapping(data.as_ptr().add(l.dofs as usize), p.add(l.dofs as usize), CAP - l.dofs as usize);
    // header words other than the cursor are data to the readers as well
    wr64(p, l.hdr, kani::any());
    wr32(p, l.hdr + 12, kani::any());
    wr32(p, l.hdr + 16, kani::any());
    wr32(p, l.hdr + 8, allocated);
  }
  assert!(arena.allocated() == allocated as usize, "ENC: allocated readback");
  (arena, allocated)
}

macro_rules! c15_fixed {
  ($name:ident, $arena:ty, $ty:ident, $get:ident, $from:ident) => {
    #[kani::proof]
    #[kani::unwind(18)]
    fn $name() {
      const SIZE: usize = core::mem::size_of::<$ty>();
      let (arena, allocated) = c15_setup::<$arena, 64>();
      let offset: usize = kani::any();
      let fits = (offset as u128) + (SIZE as u128) <= allocated as u128;
      match arena.$get(offset) {
        Ok(v) => {
          assert!(fits, "C15: reader succeeds only when the whole value lies below allocated()");
          let mut b = [0u8; SIZE];
          unsafe { core::ptr::copy_nonoverlapping(arena.raw_ptr().add(offset), b.as_mut_ptr(), SIZE) };
          assert!(v == <$ty>::$from(b), "C15: reader returns the value decoded from the bytes at the offset");
        }
        Err(e) => {
          assert!(!fits, "C15: reader fails only when the value does not lie below allocated()");
          assert!(matches!(e, Error::OutOfBounds { .. }), "C15: failure is OutOfBounds");
        }
      }
      kani::cover!(fits && offset + SIZE == allocated as usize);
      kani::cover!(!fits && offset < allocated as usize);
      core::mem::forget(arena);
    }
  };
}

// @h props=C15 tier=quick timeout=600 bounds=CAP=64,offset:any-usize,cursor:any
c15_fixed!(c15_get_u32_le_sync, sync::Arena, u32, get_u32_le, from_le_bytes);
// @h props=C15 tier=quick timeout=600 bounds=CAP=64,offset:any-usize,cursor:any
c15_fixed!(c15_get_u64_be_unsync, unsync::Arena, u64, get_u64_be, from_be_bytes);
// @h props=C15 tier=quick timeout=600 bounds=CAP=64,offset:any-usize,cursor:any
c15_fixed!(c15_get_i16_le_unsync, unsync::Arena, i16, get_i16_le, from_le_bytes);
// @h props=C15 tier=quick timeout=600 bounds=CAP=64,offset:any-usize,cursor:any
c15_fixed!(c15_get_u128_be_sync, sync::Arena, u128, get_u128_be, from_be_bytes);
// @h props=C15 tier=thorough timeout=600 bounds=CAP=64,offset:any-usize,cursor:any
c15_fixed!(c15_get_u16_be_sync, sync::Arena, u16, get_u16_be, from_be_bytes);
// @h props=C15 tier=thorough timeout=600 bounds=CAP=64,offset:any-usize,cursor:any
c15_fixed!(c15_get_u16_le_unsync, unsync::Arena, u16, get_u16_le, from_le_bytes);
// @h props=C15 tier=thorough timeout=600 bounds=CAP=64,offset:any-usize,cursor:any
c15_fixed!(c15_get_u32_be_unsync, unsync::Arena, u32, get_u32_be, from_be_bytes);
// @h props=C15 tier=thorough timeout=600 bounds=CAP=64,offset:any-usize,cursor:any
c15_fixed!(c15_get_u64_le_sync, sync::Arena, u64, get_u64_le, from_le_bytes);
// @h props=C15 tier=thorough timeout=600 bounds=CAP=64,offset:any-usize,cursor:any
c15_fixed!(c15_get_u128_le_unsync, unsync::Arena, u128, get_u128_le, from_le_bytes);
// @h props=C15 tier=thorough timeout=600 bounds=CAP=64,offset:any-usize,cursor:any
c15_fixed!(c15_get_i16_be_sync, sync::Arena, i16, get_i16_be, from_be_bytes);
// @h props=C15 tier=thorough timeout=600 bounds=CAP=64,offset:any-usize,cursor:any
c15_fixed!(c15_get_i32_be_unsync, unsync::Arena, i32, get_i32_be, from_be_bytes);
// @h props=C15 tier=thorough timeout=600 bounds=CAP=64,offset:any-usize,cursor:any
c15_fixed!(c15_get_i32_le_sync, sync::Arena, i32, get_i32_le, from_le_bytes);
// @h props=C15 tier=thorough timeout=600 bounds=CAP=64,offset:any-usize,cursor:any
c15_fixed!(c15_get_i64_be_sync, sync::Arena, i64, get_i64_be, from_be_bytes);
// @h props=C15 tier=thorough timeout=600 bounds=CAP=64,offset:any-usize,cursor:any
c15_fixed!(c15_get_i64_le_unsync, unsync::Arena, i64, get_i64_le, from_le_bytes);
// @h props=C15 tier=thorough timeout=600 bounds=CAP=64,offset:any-usize,cursor:any
c15_fixed!(c15_get_i128_be_unsync, unsync::Arena, i128, get_i128_be, from_be_bytes);
// @h props=C15 tier=thorough timeout=600 bounds=CAP=64,offset:any-usize,cursor:any
c15_fixed!(c15_get_i128_le_sync, sync::Arena, i128, get_i128_le, from_le_bytes);

/// plain layout: data_offset = 1, so allocated() can be smaller than the value being read
pub(crate) fn c15_setup_plain<A: Allocator, const CAP: usize>() -> (A, u32) {
  let arena: A = Options::new().with_capacity(CAP as u32).with_unify(false).with_freelist(Freelist::None).with_maximum_retries(1).alloc::<A>().unwrap();
  let allocated: u32 = kani::any();
  kani::assume(allocated >= 1 && allocated <= CAP as u32);
  let data: [u8; CAP] = kani::any();
  unsafe {
    core::ptr::copy_nonoverlapping(data.as_ptr(), arena.raw_mut_ptr(), CAP);
    arena.rewind(ArenaPosition::Start(allocated));
  }
  assert!(arena.allocated() == allocated as usize, "ENC: rewind(Start) sets the cursor inside [data_offset, capacity]");
  (arena, allocated)
}

macro_rules! c15_fixed_plain {
  ($name:ident, $arena:ty, $ty:ident, $get:ident, $from:ident) => {
    #[kani::proof]
    #[kani::unwind(18)]
    fn $name() {
      const SIZE: usize = core::mem::size_of::<$ty>();
      let (arena, allocated) = c15_setup_plain::<$arena, 40>();
      let offset: usize = kani::any();
      let fits = (offset as u128) + (SIZE as u128) <= allocated as u128;
      match arena.$get(offset) {
        Ok(v) => {
          assert!(fits, "C15: reader succeeds only when the whole value lies below allocated()");
          let mut b = [0u8; SIZE];
          unsafe { core::ptr::copy_nonoverlapping(arena.raw_ptr().add(offset), b.as_mut_ptr(), SIZE) };
          assert!(v == <$ty>::$from(b), "C15: reader returns the value decoded from the bytes at the offset");
        }
        Err(e) => {
          assert!(!fits, "C15: reader fails only when the value does not lie below allocated()");
          assert!(matches!(e, Error::OutOfBounds { .. }), "C15: failure is OutOfBounds");
        }
      }
      kani::cover!((allocated as usize) < SIZE && offset == 0, "cursor below the size of the value");
      kani::cover!(fits && offset + SIZE == allocated as usize);
      core::mem::forget(arena);
    }
  };
}
// @h props=C15 tier=quick timeout=600 bounds=CAP=40,plain-layout,offset:any-usize,cursor:1..=40
c15_fixed_plain!(c15_get_u64_le_plain_unsync, unsync::Arena, u64, get_u64_le, from_le_bytes);
// @h props=C15 tier=quick timeout=600 bounds=CAP=40,plain-layout,offset:any-usize,cursor:1..=40
c15_fixed_plain!(c15_get_u16_be_plain_sync, sync::Arena, u16, get_u16_be, from_be_bytes);
// @h props=C15 tier=thorough timeout=600 bounds=CAP=40,plain-layout,offset:any-usize,cursor:1..=40
c15_fixed_plain!(c15_get_i128_le_plain_sync, sync::Arena, i128, get_i128_le, from_le_bytes);
// @h props=C15 tier=thorough timeout=600 bounds=CAP=40,plain-layout,offset:any-usize,cursor:1..=40
c15_fixed_plain!(c15_get_u32_be_plain_unsync, unsync::Arena, u32, get_u32_be, from_be_bytes);

macro_rules! c15_byte {
  ($name:ident, $arena:ty, $ty:ident, $get:ident) => {
    #[kani::proof]
    #[kani::unwind(3)]
    fn $name() {
      let (arena, allocated) = c15_setup::<$arena, 64>();
      let offset: usize = kani::any();
      let fits = offset < allocated as usize;
      match arena.$get(offset) {
        Ok(v) => {
          assert!(fits, "C15: reader succeeds only below allocated()");
          assert!(v == unsafe { arena.raw_ptr().add(offset).read() } as $ty, "C15: reader returns the byte at the offset");
        }
        Err(e) => {
          assert!(!fits, "C15: reader fails only at or above allocated()");
          assert!(matches!(e, Error::OutOfBounds { .. }), "C15: failure is OutOfBounds");
        }
      }
      kani::cover!(fits && offset + 1 == allocated as usize);
      core::mem::forget(arena);
    }
  };
}
// @h props=C15 tier=quick timeout=300 bounds=CAP=64,offset:any-usize
c15_byte!(c15_get_u8_sync, sync::Arena, u8, get_u8);
// @h props=C15 tier=thorough timeout=300 bounds=CAP=64,offset:any-usize
c15_byte!(c15_get_i8_unsync, unsync::Arena, i8, get_i8);

macro_rules! c15_varint {
  ($name:ident, $arena:ty, $ty:ident, $get:ident, $maxlen:expr, $unwind:expr) => {
    #[kani::proof]
    #[kani::unwind($unwind)]
    fn $name() {
      let (arena, allocated) = c15_setup::<$arena, 64>();
      let offset: usize = kani::any();
      let r1 = arena.$get(offset);
      if offset >= allocated as usize {
        assert!(matches!(r1, Err(Error::OutOfBounds { .. })), "C15: varint reader at or above allocated() is OutOfBounds");
      } else {
        assert!(!matches!(r1, Err(Error::OutOfBounds { .. })), "C15: varint reader below allocated() is not OutOfBounds");
        if let Ok((n, _)) = &r1 {
          assert!(offset + *n <= allocated as usize, "C15: varint reader never consumes bytes at or above allocated()");
          assert!(*n >= 1 && *n <= $maxlen, "C15: varint length within the type's maximum");
        }
        // independence from the bytes at and above allocated(): scribble there and read again
        if (allocated as usize) < 64 {
          let junk: [u8; 24] = kani::any();
          let room = 64 - allocated as usize;
          let k = if room < 24 { room } else { 24 };
          unsafe { core::ptr::copy_nonoverlapping(junk.as_ptr(), arena.raw_mut_ptr().add(allocated as usize), k) };
          let r2 = arena.$get(offset);
          match (&r1, &r2) {
            (Ok(a), Ok(b)) => assert!(a.0 == b.0 && a.1 == b.1, "C15: varint result does not depend on bytes at or above allocated()"),
            (Err(_), Err(_)) => {}
            _ => assert!(false, "C15: varint result does not depend on bytes at or above allocated()"),
          }
        }
        kani::cover!(r1.is_ok() && offset + 2 <= allocated as usize);
        kani::cover!(r1.is_err() && offset + 1 == allocated as usize);
      }
      core::mem::forget(r1);
      core::mem::forget(arena);
    }
  };
}
// @h props=C15 tier=quick timeout=900 bounds=CAP=64,offset:any-usize,cursor:any
c15_varint!(c15_varint_u32_sync, sync::Arena, u32, get_u32_varint, 5, 7);
// @h props=C15 tier=quick timeout=900 bounds=CAP=64,offset:any-usize,cursor:any
c15_varint!(c15_varint_i64_unsync, unsync::Arena, i64, get_i64_varint, 10, 12);
// @h props=C15 tier=thorough timeout=900 bounds=CAP=64,offset:any-usize,cursor:any
c15_varint!(c15_varint_u16_unsync, unsync::Arena, u16, get_u16_varint, 3, 5);
// @h props=C15 tier=thorough timeout=900 bounds=CAP=64,offset:any-usize,cursor:any
c15_varint!(c15_varint_i16_sync, sync::Arena, i16, get_i16_varint, 3, 5);
// @h props=C15 tier=thorough timeout=900 bounds=CAP=64,offset:any-usize,cursor:any
c15_varint!(c15_varint_i32_unsync, unsync::Arena, i32, get_i32_varint, 5, 7);
// @h props=C15 tier=thorough timeout=900 bounds=CAP=64,offset:any-usize,cursor:any
c15_varint!(c15_varint_u64_sync, sync::Arena, u64, get_u64_varint, 10, 12);
// @h props=C15 tier=thorough timeout=1500 bounds=CAP=64,offset:any-usize,cursor:any
c15_varint!(c15_varint_u128_unsync, unsync::Arena, u128, get_u128_varint, 19, 21);
// @h props=C15 tier=thorough timeout=1500 bounds=CAP=64,offset:any-usize,cursor:any
c15_varint!(c15_varint_i128_sync, sync::Arena, i128, get_i128_varint, 19, 21);

pub(crate) fn c15_slices<A: Allocator>() {
  let (arena, allocated) = c15_setup::<A, 64>();
  assert!(arena.allocated_memory().len() == allocated as usize, "C15: allocated_memory().len() == allocated()");
  assert!(arena.data().len() == allocated as usize - arena.data_offset(), "C15: data().len() == allocated() - data_offset()");
  assert!(arena.memory().len() == arena.capacity() && arena.capacity() == 64, "C15: memory().len() == capacity()");
  assert!(arena.allocated_memory().as_ptr() == arena.raw_ptr(), "C15: allocated_memory starts at the arena base");
  assert!(arena.data().as_ptr() == unsafe { arena.raw_ptr().add(arena.data_offset()) }, "C15: data starts at data_offset");
  kani::cover!(allocated == 64);
  core::mem::forget(arena);
}
// @h props=C15 tier=quick timeout=300 bounds=CAP=64,cursor:any
#[kani::proof]
#[kani::unwind(3)]
fn c15_slice_lengths_sync() {
  c15_slices::<sync::Arena>();
}
// @h props=C15 tier=quick timeout=300 bounds=CAP=64,cursor:any
#[kani::proof]
#[kani::unwind(3)]
fn c15_slice_lengths_unsync() {
  c15_slices::<unsync::Arena>();
}

// ============================ C04: any request size ==========================================
// @h props=C04 tier=quick timeout=1500 role=anysize_bytes bounds=CAP=128,MAXN=2,n:any-u32
#[kani::proof]
#[kani::unwind(5)]
fn c04_alloc_bytes_anysize_unsync_opt() {
  step_alloc::<unsync::Arena, u8, 2, 3, 128>(cfg!(Optimistic, 1, any), Kind::Bytes);
}
// @h props=C04 tier=quick timeout=1800 role=anysize_bytes bounds=CAP=128,MAXN=2,n:any-u32,retries=1
#[kani::proof]
#[kani::unwind(5)]
fn c04_alloc_bytes_anysize_sync_pess() {
  step_alloc::<sync::Arena, u8, 2, 3, 128>(cfg!(Pessimistic, 1, any), Kind::Bytes);
}
// @h props=C04 tier=quick timeout=1800 role=anysize_aligned bounds=CAP=128,MAXN=1,extra:any-u32,T=u64
#[kani::proof]
#[kani::unwind(4)]
fn c04_alloc_aligned_anysize_unsync_pess() {
  step_alloc::<unsync::Arena, u64, 1, 2, 128>(cfg!(Pessimistic, 1, any), Kind::Aligned);
}
// @h props=C04 tier=quick timeout=1800 role=anysize_aligned bounds=CAP=128,MAXN=1,extra:any-u32,T=u32,retries=1
#[kani::proof]
#[kani::unwind(4)]
fn c04_alloc_aligned_anysize_sync_opt() {
  step_alloc::<sync::Arena, u32, 1, 2, 128>(cfg!(Optimistic, 1, any), Kind::Aligned);
}
// @h props=C04 tier=thorough timeout=1800 role=anysize_bytes bounds=CAP=128,list=None,n:any-u32 optcover=slow_path_with_split|slow_path_without_split
#[kani::proof]
#[kani::unwind(4)]
fn c04_alloc_bytes_anysize_sync_none() {
  step_alloc::<sync::Arena, u8, 1, 2, 128>(cfg!(None, 1, any), Kind::Bytes);
}
// @h props=C04 tier=thorough timeout=1800 role=anysize_bytes bounds=CAP=128,list=None,n:any-u32 optcover=slow_path_with_split|slow_path_without_split
#[kani::proof]
#[kani::unwind(4)]
fn c04_alloc_bytes_anysize_unsync_none() {
  step_alloc::<unsync::Arena, u8, 1, 2, 128>(cfg!(None, 1, any), Kind::Bytes);
}
// @h props=C04 tier=thorough timeout=2400 role=anysize_bytes bounds=CAP=128,MAXN=2,n:any-u32,retries=2
#[kani::proof]
#[kani::unwind(5)]
fn c04_alloc_bytes_anysize_sync_opt_r2() {
  step_alloc::<sync::Arena, u8, 2, 3, 128>(cfg!(Optimistic, 2, any), Kind::Bytes);
}
// @h props=C04 tier=thorough timeout=1800 role=anysize_bytes bounds=CAP=128,MAXN=2,n:any-u32
#[kani::proof]
#[kani::unwind(5)]
fn c04_alloc_bytes_anysize_unsync_pess() {
  step_alloc::<unsync::Arena, u8, 2, 3, 128>(cfg!(Pessimistic, 1, any), Kind::Bytes);
}

/// Read-only arena: every allocation call is refused with ReadOnly and changes nothing.
pub(crate) fn step_ro_alloc<A: Allocator, T, const CAP: usize>(kind: Kind) {
  let opts = Options::new().with_capacity(CAP as u32).with_unify(true).with_freelist(Freelist::Optimistic);
  let arena: A = crate::memory::vk_mem::make_read_only::<A>(opts);
  assert!(arena.read_only(), "C16: read_only() reports the mode");
  let p = arena.raw_ptr();
  let x: u32 = kani::any();
  kani::assume(x < CAP as u32);
  let before = unsafe { rd8(p, x) };
  let (a0, d0, r0) = (arena.allocated(), arena.discarded(), arena.remaining());
  let n: u32 = kani::any();
  let g = do_alloc::<A, T>(&arena, kind, n);
  assert!(!g.ok && g.ro_err, "C04: allocation on a read-only arena fails with ReadOnly");
  assert!(arena.allocated() == a0 && arena.discarded() == d0 && arena.remaining() == r0, "C04: refused allocation changes nothing");
  assert!(unsafe { rd8(p, x) } == before, "C09: a read-only arena never changes its memory");
  core::mem::forget(arena);
}
// @h props=C04,C09 tier=quick timeout=600 bounds=CAP=64,n:any-u32
#[kani::proof]
#[kani::unwind(3)]
fn c04_ro_alloc_bytes_sync() {
  step_ro_alloc::<sync::Arena, u8, 64>(Kind::Bytes);
}
// @h props=C04,C09 tier=quick timeout=600 bounds=CAP=64,extra:any-u32,T=u64
#[kani::proof]
#[kani::unwind(3)]
fn c04_ro_alloc_aligned_unsync() {
  step_ro_alloc::<unsync::Arena, u64, 64>(Kind::Aligned);
}
// @h props=C04,C09 tier=quick timeout=600 bounds=CAP=64,T=u32
#[kani::proof]
#[kani::unwind(3)]
fn c04_ro_alloc_typed_unsync() {
  step_ro_alloc::<unsync::Arena, u32, 64>(Kind::Typed);
}
// @h props=C04,C09 tier=thorough timeout=600 bounds=CAP=64,T=u64
#[kani::proof]
#[kani::unwind(3)]
fn c04_ro_alloc_typed_sync() {
  step_ro_alloc::<sync::Arena, u64, 64>(Kind::Typed);
}

// ============================ C03: typed / aligned allocations ===============================
#[repr(align(16))]
pub(crate) struct A16([u8; 16]);
pub(crate) type P12 = (u64, u32);
#[repr(align(32))]
pub(crate) struct A32([u8; 32]);

macro_rules! c03_step {
  ($name:ident, $arena:ty, $ty:ty, $fl:ident, $kind:ident, $n:expr, $m:expr, $unwind:expr) => {
    #[kani::proof]
    #[kani::unwind($unwind)]
    fn $name() {
      step_alloc::<$arena, $ty, $n, $m, 128>(cfg!($fl, 1), Kind::$kind);
    }
  };
}
// @h props=C03,C01,C10 quick=C03 timeout=1800 bounds=CAP=128,MAXN=2,T=u32
c03_step!(inv_alloc_typed_u32_unsync_opt, unsync::Arena, u32, Optimistic, Typed, 2, 3, 5);
// @h props=C03,C01,C10 quick=C03 timeout=1800 bounds=CAP=128,MAXN=2,T=u64,retries=1
c03_step!(inv_alloc_typed_u64_sync_pess, sync::Arena, u64, Pessimistic, Typed, 2, 3, 5);
// @h props=C03,C01,C10 quick=C03 timeout=1800 bounds=CAP=128,MAXN=2,T=align16x16
c03_step!(inv_alloc_typed_a16_unsync_pess, unsync::Arena, A16, Pessimistic, Typed, 2, 3, 5);
// @h props=C03,C01,C10 quick=C03 timeout=1800 bounds=CAP=128,MAXN=2,T=u64,n<=256
c03_step!(inv_alloc_aligned_u64_unsync_opt, unsync::Arena, u64, Optimistic, Aligned, 2, 3, 5);
// @h props=C03 quick=C03 role=zst_aligned timeout=1800 bounds=CAP=128,MAXN=1,T=[u64;0],n<=256
c03_step!(inv_alloc_aligned_zst8_unsync_opt, unsync::Arena, [u64; 0], Optimistic, Aligned, 1, 2, 4);
// @h props=C03,C01 quick=C03 timeout=900 bounds=CAP=128,MAXN=1,T=() optcover=fast_path_with_a_non-empty_list|slow_path_with_split|slow_path_without_split|error_with_a_non-empty_list
c03_step!(inv_alloc_typed_unit_sync_opt, sync::Arena, (), Optimistic, Typed, 1, 2, 4);
// over-aligned T (alignment larger than the 8-byte node header can absorb)
// @h props=C03,C01,C04,C10 quick=C01,C03 timeout=1800 bounds=CAP=128,MAXN=2,T=align32x32
c03_step!(inv_alloc_typed_a32_unsync_pess, unsync::Arena, A32, Pessimistic, Typed, 2, 3, 5);
// @h props=C03,C01,C04,C10 quick=C01,C04 timeout=1800 bounds=CAP=128,MAXN=2,T=align32x32,retries=1
c03_step!(inv_alloc_typed_a32_sync_opt, sync::Arena, A32, Optimistic, Typed, 2, 3, 5);
// @h props=C03,C01,C10 tier=thorough timeout=1800 bounds=CAP=128,MAXN=2,T=align32x32,n<=256
c03_step!(inv_alloc_aligned_a32_unsync_opt, unsync::Arena, A32, Optimistic, Aligned, 2, 3, 5);
// thorough: rest of the layout list
// @h props=C03,C01,C10 tier=thorough timeout=1800 bounds=CAP=128,MAXN=2,T=u8 optcover=error_with_a_non-empty_list
c03_step!(inv_alloc_typed_u8_sync_opt, sync::Arena, u8, Optimistic, Typed, 2, 3, 5);
// @h props=C03,C01,C10 tier=thorough timeout=1800 bounds=CAP=128,MAXN=2,T=u16
c03_step!(inv_alloc_typed_u16_unsync_pess, unsync::Arena, u16, Pessimistic, Typed, 2, 3, 5);
// @h props=C03,C01,C10 tier=thorough timeout=1800 bounds=CAP=128,MAXN=2,T=[u8;3]
c03_step!(inv_alloc_typed_b3_unsync_opt, unsync::Arena, [u8; 3], Optimistic, Typed, 2, 3, 5);
// @h props=C03,C01,C10 tier=thorough timeout=1800 bounds=CAP=128,MAXN=2,T=(u64,u32)
c03_step!(inv_alloc_typed_p12_sync_opt, sync::Arena, P12, Optimistic, Typed, 2, 3, 5);
// @h props=C03,C01,C10 tier=thorough timeout=1800 bounds=CAP=128,MAXN=2,T=[u64;5]
c03_step!(inv_alloc_typed_q5_unsync_opt, unsync::Arena, [u64; 5], Optimistic, Typed, 2, 3, 5);
// @h props=C03,C01,C10 tier=thorough timeout=1800 bounds=CAP=128,MAXN=2,T=align16x16
c03_step!(inv_alloc_typed_a16_sync_opt, sync::Arena, A16, Optimistic, Typed, 2, 3, 5);
// @h props=C03,C01,C10 tier=thorough timeout=1800 bounds=CAP=128,MAXN=2,T=u32,n<=256
c03_step!(inv_alloc_aligned_u32_sync_pess, sync::Arena, u32, Pessimistic, Aligned, 2, 3, 5);
// @h props=C03,C01,C10 quick=C03 timeout=1800 bounds=CAP=128,MAXN=2,T=align16x16,n<=256
c03_step!(inv_alloc_aligned_a16_unsync_opt, unsync::Arena, A16, Optimistic, Aligned, 2, 3, 5);
// @h props=C03,C01,C10 tier=thorough timeout=1800 bounds=CAP=128,MAXN=2,T=u16,n<=256
c03_step!(inv_alloc_aligned_u16_sync_opt, sync::Arena, u16, Optimistic, Aligned, 2, 3, 5);
// @h props=C03,C01,C10 tier=thorough timeout=1800 bounds=CAP=128,list=None,T=u64 optcover=slow_path_with_split|slow_path_without_split
c03_step!(inv_alloc_typed_u64_unsync_none, unsync::Arena, u64, None, Typed, 1, 2, 4);
// @h props=C03,C01,C10 tier=thorough timeout=1800 bounds=CAP=128,list=None,T=u32,n<=256 optcover=slow_path_with_split|slow_path_without_split
c03_step!(inv_alloc_aligned_u32_sync_none, sync::Arena, u32, None, Aligned, 1, 2, 4);

// ============================ C10/C20: list maintenance ops ==================================
pub(crate) fn step_discard_freelist<A: Allocator, const N: usize, const M: usize, const CAP: usize>(cfg: Cfg) {
  let l = lay(cfg.res, CAP as u32);
  let arena: A = mk::<A>(cfg.fl, cfg.retries, &l, 20);
  let pre = Pre::<N>::any(&l, cfg.fl);
  let lv = Live::any(&l, &pre);
  let data: [u8; CAP] = kani::any();
  unsafe { poke::<A, N, CAP>(&arena, &l, &pre, &data) };
  assert!(arena.allocated() == pre.allocated as usize, "ENC: allocated readback");
  let p = arena.raw_ptr();
  let w_before = if lv.ll > 0 { unsafe { rd8(p, lv.w) } } else { 0 };
  let r_before = unsafe { rd8(p, lv.r) };
  let ret = arena.discard_freelist();
  let post: Post<M> = unsafe { read_post::<A, M>(&arena, &l, CAP as u32) };
  match ret {
    Ok(v) => {
      assert!(v == pre.total(), "C20: discard_freelist returns the sum of the data sizes of the segments on the list");
      assert!(post.discarded == pre.discarded + pre.total(), "C20: discard_freelist raises discarded() by exactly that amount");
    }
    Err(_) => assert!(false, "C20: discard_freelist succeeds on a writable arena"),
  }
  assert!(post.n == 0 && post.terminated && post.sentinel_size == MAX, "C20: discard_freelist leaves the list empty");
  assert!(post.allocated == pre.allocated && post.min_seg == pre.min_seg, "C20: discard_freelist touches neither cursor nor minimum segment size");
  assert!(unsafe { rd8(p, lv.r) } == r_before, "C16: reserved prefix / identification bytes never written");
  if lv.ll > 0 {
    assert!(unsafe { rd8(p, lv.w) } == w_before, "C01: bytes of a live allocation unchanged by discard_freelist");
  }
  // afterwards requests can only be served from fresh space
  let n: u32 = kani::any();
  kani::assume(n >= 1 && n <= 2 * CAP as u32);
  let g = do_alloc::<A, u8>(&arena, Kind::Bytes, n);
  if pre.allocated as u64 + n as u64 > CAP as u64 {
    assert!(!g.ok && g.space_err, "C20: after discard_freelist a request larger than the fresh space fails");
  } else {
    assert!(g.ok && g.bo == pre.allocated, "C20: after discard_freelist requests are served from fresh space");
  }
  kani::cover!(pre.k == N && pre.total() > 0);
  core::mem::forget(arena);
}
// @h props=C20,C10,C01 quick=C20 timeout=1500 bounds=CAP=128,MAXN=2
#[kani::proof]
#[kani::unwind(5)]
fn c20_discard_freelist_unsync_opt() {
  step_discard_freelist::<unsync::Arena, 2, 3, 128>(cfg!(Optimistic, 1));
}
// @h props=C20,C10,C01 quick=C20 timeout=1800 bounds=CAP=128,MAXN=2,retries=1
#[kani::proof]
#[kani::unwind(5)]
fn c20_discard_freelist_sync_pess() {
  step_discard_freelist::<sync::Arena, 2, 3, 128>(cfg!(Pessimistic, 1));
}
// @h props=C20,C10 tier=thorough timeout=1800 bounds=CAP=128,MAXN=3
#[kani::proof]
#[kani::unwind(6)]
fn c20_discard_freelist_unsync_pess_n3() {
  step_discard_freelist::<unsync::Arena, 3, 4, 128>(cfg!(Pessimistic, 1));
}
// @h props=C20,C10 tier=thorough timeout=2400 bounds=CAP=128,MAXN=3,retries=1
#[kani::proof]
#[kani::unwind(6)]
fn c20_discard_freelist_sync_opt_n3() {
  step_discard_freelist::<sync::Arena, 3, 4, 128>(cfg!(Optimistic, 1));
}

pub(crate) fn step_knobs<A: Allocator, const N: usize, const M: usize, const CAP: usize>(cfg: Cfg) {
  let l = lay(cfg.res, CAP as u32);
  let arena: A = mk::<A>(cfg.fl, cfg.retries, &l, 20);
  let pre = Pre::<N>::any(&l, cfg.fl);
  let data: [u8; CAP] = kani::any();
  unsafe { poke::<A, N, CAP>(&arena, &l, &pre, &data) };
  let p = arena.raw_ptr();
  let y: u32 = kani::any();
  kani::assume(y < CAP as u32);
  let before = unsafe { rd8(p, y) };
  let which: bool = kani::any();
  if which {
    let d: u32 = kani::any();
    kani::assume(d as u64 + pre.discarded as u64 <= u32::MAX as u64);
    arena.increase_discarded(d);
    assert!(arena.discarded() == pre.discarded + d, "C20: increase_discarded(n) raises discarded() by n");
    assert!(arena.minimum_segment_size() == pre.min_seg, "C20: increase_discarded changes nothing else");
    kani::assume(y < l.hdr + 16 || y >= l.hdr + 20);
  } else {
    let m: u32 = kani::any();
    arena.set_minimum_segment_size(m);
    assert!(arena.minimum_segment_size() == m, "C16: minimum_segment_size() reports the value in force");
    assert!(arena.discarded() == pre.discarded, "C20: set_minimum_segment_size leaves discarded() alone");
    kani::assume(y < l.hdr + 12 || y >= l.hdr + 16);
  }
  assert!(arena.allocated() == pre.allocated as usize, "C10: knob changes leave the cursor alone");
  assert!(unsafe { rd8(p, y) } == before, "C10: knob changes leave the list and every other byte alone");
  core::mem::forget(arena);
}
// @h props=C20,C10,C16 quick=C20 timeout=600 bounds=CAP=128,MAXN=2,d:any-u32,m:any-u32
#[kani::proof]
#[kani::unwind(5)]
fn c20_knobs_unsync() {
  step_knobs::<unsync::Arena, 2, 3, 128>(cfg!(Optimistic, 1));
}
// @h props=C20,C10,C16 quick=C20 timeout=600 bounds=CAP=128,MAXN=2,d:any-u32,m:any-u32
#[kani::proof]
#[kani::unwind(5)]
fn c20_knobs_sync() {
  step_knobs::<sync::Arena, 2, 3, 128>(cfg!(Pessimistic, 1));
}

// ============================ C19: checksum tiling ===========================================
pub(crate) struct RecCks {
  base: usize,
  next: usize,
  total: u64,
  chunks: u32,
  poisoned: bool,
}
pub(crate) struct RecBuild;
impl dbutils::checksum::BuildChecksumer for RecBuild {
  type Checksumer = RecCks;
  fn build_checksumer(&self) -> RecCks {
    RecCks { base: 0, next: 0, total: 0, chunks: 0, poisoned: false }
  }
  fn checksum_one(&self, src: &[u8]) -> u64 {
    src.len() as u64
  }
}
impl dbutils::checksum::Checksumer for RecCks {
  fn update(&mut self, buf: &[u8]) {
    let p = buf.as_ptr() as usize;
    if self.chunks == 0 {
      self.base = p;
    } else if p != self.next {
      self.poisoned = true;
    }
    self.next = p + buf.len();
    self.total += buf.len() as u64;
    self.chunks += 1;
  }
  fn reset(&mut self) {}
  fn digest(&self) -> u64 {
    // digest encodes: contiguous-in-order flag, first byte address and total length
    if self.poisoned {
      u64::MAX
    } else {
      ((self.base as u64 & 0xffff_ffff) << 32) | self.total
    }
  }
}

pub(crate) fn c19_tiling<A: Allocator>() {
  const CAP: u32 = 3 * 4096 + 64;
  let reserved: u32 = kani::any();
  kani::assume(reserved <= 64);
  let arena: A = Options::new().with_capacity(CAP).with_reserved(reserved).with_freelist(Freelist::None).alloc::<A>().unwrap();
  assert!(arena.page_size() == 4096, "ENC: page size 4096 in the alloc build");
  let target: u32 = kani::any();
  unsafe { arena.rewind(ArenaPosition::Start(target)) };
  let allocated = arena.allocated();
  let d = arena.checksum(&RecBuild);
  let expect_len = (allocated - reserved as usize) as u64;
  assert!(d != u64::MAX, "C19: checksum feeds the chunks in order, each exactly once, without gaps");
  assert!(d & 0xffff_ffff == expect_len, "C19: checksum covers exactly allocated() - reserved bytes");
  if expect_len > 0 {
    assert!((d >> 32) == ((arena.raw_ptr() as usize + reserved as usize) as u64 & 0xffff_ffff), "C19: checksum starts right after the reserved prefix");
  }
  kani::cover!(expect_len == 2 * 4096);
  kani::cover!(expect_len == 2 * 4096 + 1);
  kani::cover!(expect_len == 3 * 4096 - 1);
  core::mem::forget(arena);
}
// @h props=C19 tier=quick timeout=1500 bounds=CAP=3pages+64,allocated:any,reserved<=64,page=4096
#[kani::proof]
#[kani::unwind(6)]
fn c19_checksum_tiling_unsync() {
  c19_tiling::<unsync::Arena>();
}
// @h props=C19 tier=quick timeout=1500 bounds=CAP=3pages+64,allocated:any,reserved<=64,page=4096
#[kani::proof]
#[kani::unwind(6)]
fn c19_checksum_tiling_sync() {
  c19_tiling::<sync::Arena>();
}
