//! Overlay module (child of the crate root), only in the `memmap` feature build: the file
//! identification check that every open variant runs before it yields an arena (C09).
#![allow(dead_code, unused_imports, unused_variables, clippy::all)]
use super::*;

fn fl_of(b: u8) -> Option<Freelist> {
  match b {
    0 => Some(Freelist::None),
    1 => Some(Freelist::Optimistic),
    2 => Some(Freelist::Pessimistic),
    _ => None,
  }
}

// @h props=C09 tier=quick feat=memmap timeout=900 bounds=all-2^64-identification-bytes,magic:any-u16,expected-freelist:any
#[kani::proof]
#[kani::unwind(10)]
fn c09_sanity_check_exhaustive() {
  let data: [u8; 8] = kani::any();
  let magic: u16 = kani::any();
  let expect_some: bool = kani::any();
  let eb: u8 = kani::any();
  kani::assume(eb <= 2);
  let expect = if expect_some { fl_of(eb) } else { None };
  // what the documentation of the file format says must match
  let stored = fl_of(data[1]);
  let text_ok = data[2] == b'a' && data[3] == b'l';
  let magic_ok = data[4] == magic.to_le_bytes()[0] && data[5] == magic.to_le_bytes()[1];
  let version_ok = data[6] == 0 && data[7] == 0;
  let fl_ok = stored.is_some() && (!expect_some || stored == expect);
  let should_open = text_ok && magic_ok && version_ok && fl_ok;
  match sanity_check(expect, magic, &data) {
    Ok(f) => {
      assert!(should_open, "C09: a file whose identification bytes differ from what the caller expects is refused");
      assert!(Some(f) == stored, "C09: the freelist kind is taken from the file");
    }
    Err(e) => {
      assert!(!should_open, "C09: a file with matching identification bytes is accepted");
      core::mem::forget(e);
    }
  }
  kani::cover!(should_open, "accepted");
  kani::cover!(!text_ok && magic_ok && version_ok && fl_ok, "refused for the magic text only");
  kani::cover!(text_ok && magic_ok && !version_ok && fl_ok, "refused for the format version only");
  kani::cover!(text_ok && magic_ok && version_ok && stored.is_some() && !fl_ok, "refused for the freelist kind only");
}

// @h props=C09,C16 tier=quick feat=memmap timeout=900 bounds=freelist:3,magic:any-u16
#[kani::proof]
#[kani::unwind(10)]
fn c09_write_sanity_roundtrip() {
  let mut data: [u8; 8] = kani::any();
  let b0 = data[0];
  let magic: u16 = kani::any();
  let fb: u8 = kani::any();
  kani::assume(fb <= 2);
  write_sanity(fb, magic, &mut data);
  assert!(data[0] == b0, "C16: the byte before the identification bytes is not written");
  match sanity_check(None, magic, &data) {
    Ok(f) => assert!(Some(f) == fl_of(fb), "C09: what create wrote is what open reads"),
    Err(e) => {
      core::mem::forget(e);
      assert!(false, "C09: a file written by create passes the identification check");
    }
  }
  let other: u16 = kani::any();
  kani::assume(other != magic);
  match sanity_check(None, other, &data) {
    Ok(_) => assert!(false, "C09: a different external magic version is refused"),
    Err(e) => core::mem::forget(e),
  }
}
